mod failpoint;
mod fault;
mod log;
mod prog;
mod refint;
mod single;
mod sink;
mod sync;
mod util;
mod world;
mod camp;
mod camp_single;
mod camp_conc;
mod camp_fault;
mod camp_origin;
#[cfg(feature = "persist")]
mod pworld;
mod conc;
mod mon_dg;
mod mon;
mod mon_lru;
mod mon_misc;
mod mon_reuse;

fn main() {
    std::panic::set_hook(Box::new(|_| {}));
    let args: Vec<String> = std::env::args().collect();
    std::process::exit(camp::main(&args[1..]));
}
