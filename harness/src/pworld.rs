//! Persistence twin of `world` (cfg feature `persist`): persistable inputs, interned values,
//! tracked structs and functions interpreting the same `Prog` model (restricted expression
//! subset), plus the C26 campaign: serialize after an arbitrary history, restore into a fresh
//! database, compare results and executions.

use std::collections::{BTreeMap, HashMap};
use std::panic::{AssertUnwindSafe, catch_unwind};
use std::sync::{Arc, Mutex};

use salsa::plumbing::{AsId, ZalsaDatabase};
use salsa::{Database, Setter};

use crate::camp::{CaseReport, Opts};
use crate::camp_single::gen_cfg;
use crate::prog::*;
use crate::refint::{self, Inputs};
use crate::single::{outcome_matches, payload_msg};
use crate::log::Outcome;
use crate::util::*;

#[derive(Clone, Debug, PartialEq, Eq)]
pub enum PRec {
    /// WillExecute of (ingredient debug name is unknown here) key index
    WillExecute(u32, u32),
    Enter(FnTag, u32),
    Validate(u32, u32),
}

#[derive(Clone, Copy, Debug, PartialEq, Eq, Hash)]
pub enum FnTag {
    Plain,
    Inner,
    Maker,
    OnEnt,
}

pub struct PCtx {
    pub prog: Prog,
    pub log: Mutex<Vec<PRec>>,
}

#[salsa::db]
pub trait Pdb: salsa::Database {
    fn pctx(&self) -> &Arc<PCtx>;
}

#[salsa::db]
#[derive(Clone)]
pub struct PWorld {
    storage: salsa::Storage<Self>,
    ctx: Arc<PCtx>,
}

#[salsa::db]
impl salsa::Database for PWorld {}

#[salsa::db]
impl Pdb for PWorld {
    fn pctx(&self) -> &Arc<PCtx> {
        &self.ctx
    }
}

impl PWorld {
    pub fn new(ctx: Arc<PCtx>) -> PWorld {
        let c2 = ctx.clone();
        let storage = salsa::Storage::new(Some(Box::new(move |event: salsa::Event| {
            use salsa::EventKind as E;
            match &event.kind {
                E::WillExecute { database_key } => {
                    c2.log.lock().unwrap().push(PRec::WillExecute(
                        salsa::verif::ingredient_index_u32(database_key.ingredient_index()),
                        database_key.key_index().index(),
                    ));
                }
                E::DidValidateMemoizedValue { database_key } => {
                    c2.log.lock().unwrap().push(PRec::Validate(
                        salsa::verif::ingredient_index_u32(database_key.ingredient_index()),
                        database_key.key_index().index(),
                    ));
                }
                _ => {}
            }
        })));
        PWorld { storage, ctx }
    }
}

#[salsa::input(persist)]
pub struct PCell {
    #[returns(copy)]
    pub idx: u16,
    #[returns(copy)]
    pub a: u16,
    #[returns(copy)]
    pub b: u16,
}

#[salsa::input(persist)]
pub struct PKey {
    #[returns(copy)]
    pub n: u16,
}

/// Interned key with a constant hash: every value lands in the same shard, so slots are recycled
/// often (the interned type keeps values for 2 revisions only).
#[derive(Clone, Copy, PartialEq, Eq, Debug, serde::Serialize, serde::Deserialize)]
pub struct PHash(pub u16);

impl std::hash::Hash for PHash {
    fn hash<H: std::hash::Hasher>(&self, state: &mut H) {
        0u8.hash(state)
    }
}

#[salsa::interned(persist, revisions = 2)]
pub struct PSym<'db> {
    #[returns(copy)]
    pub v: PHash,
}

#[salsa::tracked(persist)]
pub struct PEnt<'db> {
    #[returns(copy)]
    pub ident: u16,
    #[tracked]
    #[returns(copy)]
    pub t0: u16,
}

fn cell_of(db: &dyn Pdb, i: usize) -> PCell {
    // cells are created first, in index order
    PCell::ingredient(db)
        .entries(db.zalsa())
        .map(|e| e.as_struct())
        .find(|c: &PCell| c.idx(db) as usize == i)
        .expect("cell")
}

fn key_of(db: &dyn Pdb, n: usize) -> PKey {
    PKey::ingredient(db)
        .entries(db.zalsa())
        .map(|e| e.as_struct())
        .find(|k: &PKey| k.n(db) as usize == n)
        .expect("key")
}

#[salsa::tracked(persist, returns(copy))]
pub fn p_plain(db: &dyn Pdb, k: PKey) -> u16 {
    let n = k.n(db) as usize;
    db.pctx().log.lock().unwrap().push(PRec::Enter(FnTag::Plain, n as u32));
    let prog = db.pctx().prog.clone();
    peval(db, &prog.nodes[n].body, None)
}

/// Not persisted: restored dependents must keep the (flattened) dependencies of this function.
#[salsa::tracked(returns(copy))]
pub fn p_inner(db: &dyn Pdb, k: PKey) -> u16 {
    let n = k.n(db) as usize;
    db.pctx().log.lock().unwrap().push(PRec::Enter(FnTag::Inner, n as u32));
    let prog = db.pctx().prog.clone();
    peval(db, &prog.nodes[n].body, None)
}

#[salsa::tracked(persist)]
pub fn p_maker<'db>(db: &'db dyn Pdb, k: PKey) -> Vec<PEnt<'db>> {
    let n = k.n(db) as usize;
    db.pctx().log.lock().unwrap().push(PRec::Enter(FnTag::Maker, n as u32));
    let prog = db.pctx().prog.clone();
    let mut out = Vec::new();
    for mk in &prog.nodes[n].mk {
        if peval(db, &mk.when, None) == 0 {
            continue;
        }
        let ident = peval(db, &mk.ident, None);
        let t0 = peval(db, &mk.t0, None);
        let e = PEnt::new(db, ident, t0);
        if std::env::var("SVH_DUMP").is_ok() {
            eprintln!("      maker n{n}: new(ident={ident}, t0={t0}) -> {:?} reads back t0={}", e.as_id(), e.t0(db));
        }
        out.push(e);
    }
    out
}

#[salsa::tracked(persist, returns(copy))]
pub fn p_on_ent<'db>(db: &'db dyn Pdb, e: PEnt<'db>) -> u16 {
    db.pctx().log.lock().unwrap().push(PRec::Enter(FnTag::OnEnt, e.as_id().index()));
    let prog = db.pctx().prog.clone();
    peval(db, &prog.on_ent, Some(e))
}

/// Persisted function whose *result* is an interned handle: a restored memo hands out the handle
/// it stored, so the identity (slot and generation) of restored interned values matters.
#[salsa::tracked(persist, returns(copy))]
pub fn p_intern<'db>(db: &'db dyn Pdb, k: PKey, v: u16) -> PSym<'db> {
    // read a LOW-durability input: only values interned by LOW queries are ever collected
    let _ = k.n(db);
    PSym::new(db, PHash(v))
}

fn pcall(db: &dyn Pdb, n: usize) -> u16 {
    let k = key_of(db, n);
    match db.pctx().prog.nodes[n].kind {
        Kind::Maker => p_maker(db, k).len() as u16,
        Kind::NoEq => p_inner(db, k),
        _ => p_plain(db, k),
    }
}

fn pent<'db>(db: &'db dyn Pdb, m: usize, i: usize) -> Option<PEnt<'db>> {
    p_maker(db, key_of(db, m)).get(i).copied()
}

fn peval<'db>(db: &'db dyn Pdb, e: &Expr, ent: Option<PEnt<'db>>) -> u16 {
    match e {
        Expr::Const(c) => *c,
        Expr::In(c, f) => {
            let cell = cell_of(db, *c);
            if *f == 0 { cell.a(db) } else { cell.b(db) }
        }
        Expr::Call(n) => pcall(db, *n),
        Expr::If(c, t, f) => {
            if peval(db, c, ent) != 0 {
                peval(db, t, ent)
            } else {
                peval(db, f, ent)
            }
        }
        Expr::Bin(op, a, b) => {
            let a = peval(db, a, ent);
            let b = peval(db, b, ent);
            op.apply(a, b)
        }
        Expr::EntField(m, i, f) => {
            let _ = pcall(db, *m);
            match pent(db, *m, *i) {
                None => ABSENT,
                Some(x) => match f {
                    Fld::Ident => x.ident(db),
                    _ => x.t0(db),
                },
            }
        }
        Expr::OnEnt(m, i) => {
            let _ = pcall(db, *m);
            match pent(db, *m, *i) {
                None => ABSENT,
                Some(x) => p_on_ent(db, x),
            }
        }
        Expr::SelfField(f) => match ent {
            None => 0,
            Some(x) => match f {
                Fld::Ident => x.ident(db),
                _ => x.t0(db),
            },
        },
        Expr::Intern(_, x) => {
            let v = peval(db, x, ent);
            if v % 2 == 0 {
                p_intern(db, key_of(db, 0), v).v(db).0
            } else {
                PSym::new(db, PHash(v)).v(db).0
            }
        }
        _ => 0,
    }
}

/// Rewrites a generated program into the persistable subset (T1/T2 reads become T0 reads etc.).
fn restrict(prog: &mut Prog) {
    fn fix(e: &mut Expr) {
        match e {
            Expr::EntField(_, _, f) | Expr::SelfField(f) => {
                if !matches!(f, Fld::Ident | Fld::T0) {
                    *f = Fld::T0;
                }
            }
            Expr::If(a, b, c) => {
                fix(a);
                fix(b);
                fix(c);
            }
            Expr::Bin(_, a, b) => {
                fix(a);
                fix(b);
            }
            Expr::Intern(_, a) => fix(a),
            Expr::CallMulti(n, _) => *e = Expr::Call(*n),
            Expr::OnSym(a) | Expr::Acc(a) => {
                fix(a);
                *e = (**a).clone();
            }
            Expr::Untracked(_) | Expr::Arg | Expr::SelfSym | Expr::Spec(..) | Expr::SpecForeign(..) | Expr::PeekZ(..) | Expr::PeekNZ(..) => {
                *e = Expr::Const(1)
            }
            _ => {}
        }
    }
    for n in &mut prog.nodes {
        fix(&mut n.body);
        for mk in &mut n.mk {
            fix(&mut mk.when);
            fix(&mut mk.ident);
            fix(&mut mk.t0);
            mk.t1 = mk.t0.clone();
            mk.t2 = mk.t0.clone();
            mk.specify = None;
            mk.spec_when = None;
            mk.pre_read = false;
            mk.twice = false;
        }
        n.lru_maker = false;
    }
    fix(&mut prog.on_ent);
}

struct PRunner {
    db: PWorld,
    ctx: Arc<PCtx>,
    inp: Inputs,
}

impl PRunner {
    fn new(prog: &Prog) -> PRunner {
        let ctx = Arc::new(PCtx {
            prog: prog.clone(),
            log: Mutex::new(Vec::new()),
        });
        let db = PWorld::new(ctx.clone());
        for i in 0..prog.ncells {
            PCell::new(&db, i as u16, 0, 0);
        }
        for n in 0..prog.nodes.len() {
            PKey::new(&db, n as u16);
        }
        PRunner {
            db,
            ctx,
            inp: Inputs {
                cells: vec![[0, 0]; prog.ncells],
                unt: vec![0],
            },
        }
    }

    fn request(&self, req: &Req) -> Outcome {
        let db: &dyn Pdb = &self.db;
        let r = catch_unwind(AssertUnwindSafe(|| match req {
            Req::Node(n) | Req::Multi(n, _) => pcall(db, *n),
            Req::EntField(m, i, f) => {
                let _ = pcall(db, *m);
                match pent(db, *m, *i) {
                    None => ABSENT,
                    Some(x) => match f {
                        Fld::Ident => x.ident(db),
                        _ => x.t0(db),
                    },
                }
            }
            Req::OnEnt(m, i) => {
                let _ = pcall(db, *m);
                match pent(db, *m, *i) {
                    None => ABSENT,
                    Some(x) => p_on_ent(db, x),
                }
            }
            _ => 0,
        }));
        match r {
            Ok(v) => Outcome::Val(v),
            Err(p) => {
                let m = payload_msg(&*p);
                Outcome::Panic(refint::classify_panic(&m), m.chars().take(300).collect())
            }
        }
    }

    fn write(&mut self, s: &Step) {
        match s {
            Step::Set { cell, field, val, .. } => {
                let c = cell_of(&self.db, *cell);
                if *field == 0 {
                    c.set_a(&mut self.db).to(*val);
                } else {
                    c.set_b(&mut self.db).to(*val);
                }
                self.inp.cells[*cell][*field] = *val;
            }
            Step::Synth(_) | Step::Poke { .. } | Step::Evict | Step::SetLru(_) => {
                self.db.synthetic_write(salsa::Durability::LOW);
            }
            Step::Req(_) => {}
        }
    }
}

fn norm_req(prog: &Prog, r: &Req) -> Option<Req> {
    Some(match r {
        Req::Node(n) => Req::Node(*n),
        Req::Multi(n, _) => Req::Node(*n),
        Req::EntField(m, i, f) => Req::EntField(*m, *i, if matches!(f, Fld::Ident) { Fld::Ident } else { Fld::T0 }),
        Req::OnEnt(m, i) => Req::OnEnt(*m, *i),
        _ => return None,
    })
    .filter(|q| match q {
        Req::Node(n) => *n < prog.nodes.len(),
        _ => true,
    })
}

pub fn persist_case(o: &Opts, case_seed: u64) -> CaseReport {
    let mut rng = Rng::new(case_seed);
    let mut cfg = gen_cfg("C06", &mut rng);
    cfg.kinds = vec![(Kind::Plain, 5), (Kind::NoEq, 2)];
    cfg.intern = vec![Sym::K2];
    cfg.lru_makers = false;
    cfg.entries_reqs = false;
    cfg.max_nodes = 8;
    cfg.hist_len = (10, 40);
    // a wider value domain in half of the cases, so that new interned values keep appearing and
    // stale slots of the (constant-hash, revisions = 2) interned type are recycled
    if rng.chance(1, 2) {
        cfg.vmod = 9;
    }
    let mut prog = gen_prog(&mut rng, &cfg);
    restrict(&mut prog);
    let hist = gen_history(&mut rng, &cfg, &prog);
    let cut = rng.range(2, hist.len().saturating_sub(2).max(2));
    let mut rep = CaseReport::new();
    rep.sample = format!("PROG {prog} HISTORY {} | serialize after step {cut}", fmt_history(&hist));
    rep.sig = hash_str(&rep.sample);
    let _ = o;
    let mut r = PRunner::new(&prog);
    let check = |r: &PRunner, q: &Req, phase: &str, si: usize, rep: &mut CaseReport| -> bool {
        let got = r.request(q);
        let exp = refint::expect_req(&prog, &r.inp, q);
        if std::env::var("SVH_DUMP").is_ok() {
            eprintln!("{phase} step {si}: {q:?} -> {got:?} (exp {exp:?}) log {:?}", r.ctx.log.lock().unwrap());
            let db: &dyn Pdb = &r.db;
            for (m, node) in prog.nodes.iter().enumerate() {
                if node.kind == Kind::Maker {
                    let v: Vec<(salsa::Id, u16, u16)> = p_maker(db, key_of(db, m))
                        .iter()
                        .map(|e| (e.as_id(), e.ident(db), e.t0(db)))
                        .collect();
                    eprintln!("   maker n{m}: {v:?}");
                }
            }
        }
        if !outcome_matches(&exp, &got) {
            let sig = match &got {
                Outcome::Panic(_, m) if phase != "before serialization" && m.contains("tracked function ingredients cannot be accessed before calling `init`") => {
                    " [sig:C26/restored_memo_depends_on_uninitialized_function_ingredient]"
                }
                _ => "",
            };
            rep.violations.push(format!(
                "{phase} step {si}: request {q:?} returned {got:?}, reference says {exp:?} (inputs {:?}){sig}",
                r.inp.cells
            ));
            false
        } else {
            true
        }
    };
    // ---- before serialization
    let mut verified_now: BTreeMap<usize, bool> = BTreeMap::new();
    let mut makers_verified: std::collections::BTreeSet<usize> = Default::default();
    for (si, s) in hist.iter().enumerate().take(cut) {
        match s {
            Step::Req(q) => {
                let Some(q) = norm_req(&prog, q) else { continue };
                if !check(&r, &q, "before serialization", si, &mut rep) {
                    // the persistence twin itself deviates: not this property's business
                    rep.violations.clear();
                    rep.counts.inc("baseline_deviates");
                    return rep;
                }
                match q {
                    Req::Node(n) => {
                        verified_now.insert(n, true);
                    }
                    Req::EntField(m, ..) | Req::OnEnt(m, ..) => {
                        makers_verified.insert(m);
                    }
                    _ => {}
                }
            }
            w => {
                r.write(w);
                verified_now.clear();
                makers_verified.clear();
                if std::env::var("SVH_DUMP").is_ok() {
                    let t = serde_json::to_string(&<dyn salsa::Database>::as_serialize(&mut r.db)).unwrap();
                    let i = t.find("updated_at").unwrap_or(0);
                    eprintln!("after write {w}: ...{}", &t[i..(i + 20).min(t.len())]);
                }
            }
        }
    }
    // functions requested in the revision of serialization: their memos are verified in it
    // ---- serialize
    let ser = catch_unwind(AssertUnwindSafe(|| {
        serde_json::to_string(&<dyn salsa::Database>::as_serialize(&mut r.db))
    }));
    let text = match ser {
        Ok(Ok(t)) => t,
        Ok(Err(e)) => {
            rep.violations.push(format!("serialization failed: {e}"));
            return rep;
        }
        Err(p) => {
            let m = payload_msg(&*p);
            // looking into the memo table of a deleted (write-locked) tracked struct slot: same
            // root cause as F15 (serialization takes the structs' read locks)
            let sig = if m.contains("write lock taken") {
                " [sig:C26/serialize_stamps_tracked_structs_as_current/stale_fields]"
            } else {
                ""
            };
            rep.violations.push(format!("serialization panicked: {m}{sig}"));
            return rep;
        }
    };
    rep.counts.add("serialized_bytes", text.len() as u64);
    if std::env::var("SVH_DUMP").is_ok() {
        eprintln!("JSON {text}");
    }
    // ---- restore into a fresh database
    let ctx2 = Arc::new(PCtx {
        prog: prog.clone(),
        log: Mutex::new(Vec::new()),
    });
    let mut db2 = PWorld::new(ctx2.clone());
    let de = catch_unwind(AssertUnwindSafe(|| {
        <dyn salsa::Database>::deserialize(&mut db2, &mut serde_json::Deserializer::from_str(&text))
    }));
    match de {
        Ok(Ok(())) => {}
        Ok(Err(e)) => {
            rep.violations.push(format!("deserialization failed: {e}"));
            return rep;
        }
        Err(p) => {
            let m = payload_msg(&*p);
            let sig = if m.contains("values are serialized in allocation order") {
                " [sig:C26/deserialize_panic/tracked_slot_gap]"
            } else {
                ""
            };
            rep.violations.push(format!("deserialization panicked: {m}{sig}"));
            return rep;
        }
    }
    rep.counts.inc("round_trips");
    // makers whose structs were not re-validated in the revision of serialization: known finding
    // F15 (serialization stamps every tracked struct as up to date for the current revision)
    fn mentions_maker(e: &Expr, prog: &Prog, stale: &std::collections::BTreeSet<usize>, depth: usize) -> bool {
        if depth > 8 {
            return false;
        }
        match e {
            Expr::EntField(m, ..) | Expr::OnEnt(m, ..) => stale.contains(m),
            Expr::Call(n) => {
                stale.contains(n)
                    || (prog.nodes[*n].kind != Kind::Maker && mentions_maker(&prog.nodes[*n].body, prog, stale, depth + 1))
            }
            Expr::If(a, b, c) => {
                mentions_maker(a, prog, stale, depth) || mentions_maker(b, prog, stale, depth) || mentions_maker(c, prog, stale, depth)
            }
            Expr::Bin(_, a, b) => mentions_maker(a, prog, stale, depth) || mentions_maker(b, prog, stale, depth),
            Expr::Intern(_, a) => mentions_maker(a, prog, stale, depth),
            _ => false,
        }
    }
    let stale_makers: std::collections::BTreeSet<usize> = (0..prog.nodes.len())
        .filter(|m| {
            prog.nodes[*m].kind == Kind::Maker
                && !makers_verified.contains(m)
                && !verified_now.get(m).copied().unwrap_or(false)
        })
        .collect();
    let f15 = |q: &Req| -> bool {
        match q {
            Req::EntField(m, ..) | Req::OnEnt(m, ..) => stale_makers.contains(m),
            Req::Node(n) => {
                stale_makers.contains(n) || mentions_maker(&prog.nodes[*n].body, &prog, &stale_makers, 0)
            }
            _ => false,
        }
    };
    let tag_f15 = |rep: &mut CaseReport, q: &Req| {
        if f15(q) {
            if let Some(m) = rep.violations.last_mut() {
                if m.contains("returned Val(") || m.contains("cannot delete read-locked id") {
                    m.push_str(" [sig:C26/serialize_stamps_tracked_structs_as_current/stale_fields]");
                }
            }
        }
    };
    let mut r2 = PRunner {
        db: db2,
        ctx: ctx2,
        inp: r.inp.clone(),
    };
    // Known finding F14: a restored memo that depends on a persisted function which has not been
    // called directly in the new database panics during validation. Three quarters of the cases
    // first call every struct-/value-keyed persisted function once on a key nobody uses, so that
    // the remaining checks are not masked by it; the rest keep F14 observable.
    if case_seed % 4 != 0 {
        let db: &dyn Pdb = &r2.db;
        let _ = catch_unwind(AssertUnwindSafe(|| {
            let _ = p_intern(db, key_of(db, 0), 60001).v(db).0;
            let first: Option<salsa::Id> = PEnt::ingredient(db)
                .entries(db.zalsa())
                .next()
                .map(|e| e.key().key_index());
            if let Some(id) = first {
                let e: PEnt<'_> = salsa::plumbing::FromId::from_id(id);
                let _ = p_on_ent(db, e);
            }
        }));
        rep.counts.inc("function_ingredients_warmed_up");
        r2.ctx.log.lock().unwrap().clear();
    }
    // ---- restored results: identical, and persisted memos verified in the serialization
    // revision are served without executing their bodies
    for n in 0..prog.nodes.len() {
        let q = Req::Node(n);
        let before = r2.ctx.log.lock().unwrap().len();
        if !check(&r2, &q, "right after restore", n, &mut rep) {
            tag_f15(&mut rep, &q);
            return rep;
        }
        let persisted = matches!(prog.nodes[n].kind, Kind::Plain | Kind::Maker);
        if persisted && verified_now.get(&n).copied().unwrap_or(false) {
            let log = r2.ctx.log.lock().unwrap();
            let executed_self = log[before..].iter().any(|x| {
                matches!(x, PRec::Enter(FnTag::Plain | FnTag::Maker, m) if *m as usize == n)
            });
            if executed_self {
                rep.violations.push(format!(
                    "restored memo of persisted function n{n} (verified in the revision of serialization, inputs unchanged) was re-executed after restore"
                ));
                return rep;
            }
            rep.counts.inc("restored_memos_served_without_execution");
        }
    }
    // ---- continue the history on the restored database
    let mut wrote_after_restore = false;
    for (si, s) in hist.iter().enumerate().skip(cut) {
        match s {
            Step::Req(q) => {
                let Some(q) = norm_req(&prog, q) else { continue };
                if !check(&r2, &q, "after restore", si, &mut rep) {
                    // a field left stale right after the restore stays stale across later writes
                    let _ = wrote_after_restore;
                    tag_f15(&mut rep, &q);
                    return rep;
                }
            }
            w => {
                r2.write(w);
                wrote_after_restore = true;
                rep.counts.inc("writes_after_restore");
            }
        }
    }
    // and once more everything
    r2.write(&Step::Synth(Dur::Low));
    for n in 0..prog.nodes.len() {
        if !check(&r2, &Req::Node(n), "final sweep", n, &mut rep) {
            tag_f15(&mut rep, &Req::Node(n));
            return rep;
        }
    }
    let log = r2.ctx.log.lock().unwrap();
    rep.counts.add(
        "executions_after_restore",
        log.iter().filter(|x| matches!(x, PRec::Enter(..))).count() as u64,
    );
    rep.counts.add(
        "validations_after_restore",
        log.iter().filter(|x| matches!(x, PRec::Validate(..))).count() as u64,
    );
    rep.nontrivial = rep.counts.get("restored_memos_served_without_execution") > 0
        && rep.counts.get("writes_after_restore") > 0;
    let _ = HashMap::<u8, u8>::new();
    rep
}
