//! E-single: one handle, one thread. Drives a history against the real database, compares
//! every request with the reference interpreter and keeps the model of the inputs.

use std::panic::{AssertUnwindSafe, catch_unwind};
use std::sync::Arc;
use std::sync::atomic::Ordering;

use salsa::plumbing::ZalsaDatabase;
use salsa::{Database, Durability, Setter};

use crate::log::{Outcome, Rec, Stamped};
use crate::prog::*;
use crate::refint::{self, Expect, Inputs, PanicClass, classify_panic};
use crate::world::*;

pub fn payload_msg(p: &(dyn std::any::Any + Send)) -> String {
    if let Some(c) = p.downcast_ref::<salsa::Cancelled>() {
        format!("Cancelled::{c:?}")
    } else if let Some(s) = p.downcast_ref::<&str>() {
        s.to_string()
    } else if let Some(s) = p.downcast_ref::<String>() {
        s.clone()
    } else {
        "<non-string panic payload>".to_string()
    }
}

pub fn sdur(d: Dur) -> Durability {
    match d {
        Dur::Low => Durability::LOW,
        Dur::Medium => Durability::MEDIUM,
        Dur::High => Durability::HIGH,
        Dur::Never => Durability::NEVER_CHANGE,
    }
}

/// Execute a request on a handle (no logging of the top-level call; see `Runner::request`).
pub fn do_request(db: &World, req: &Req) -> Outcome {
    let r = catch_unwind(AssertUnwindSafe(|| -> Outcome {
        let hdb: &dyn Hdb = db;
        match req {
            Req::Node(n) => Outcome::Val(call_node(hdb, *n, 0)),
            Req::Multi(n, a) => Outcome::Val(call_node(hdb, *n, *a)),
            Req::Accum(n) => {
                let ctx = db.ctx();
                let k = ctx.keys.get().unwrap()[*n];
                let v: Vec<u32> = match ctx.prog.nodes[*n].kind {
                    Kind::Plain => q_plain::accumulated::<Diag>(hdb, k),
                    Kind::NoEq => q_noeq::accumulated::<Diag>(hdb, k),
                    Kind::Lru => q_lru::accumulated::<Diag>(hdb, k),
                    Kind::Multi => q_multi::accumulated::<Diag>(hdb, k, 0),
                    Kind::Maker if ctx.prog.nodes[*n].lru_maker => {
                        q_maker_lru::accumulated::<Diag>(hdb, k)
                    }
                    Kind::Maker => q_maker::accumulated::<Diag>(hdb, k),
                    Kind::Fix if ctx.prog.nodes[*n].lru_fix => q_fix_lru::accumulated::<Diag>(hdb, k),
                    Kind::Fix => q_fix::accumulated::<Diag>(hdb, k),
                    Kind::FixJ => q_fixj::accumulated::<Diag>(hdb, k),
                    Kind::Fb => q_fb::accumulated::<Diag>(hdb, k),
                }
                .into_iter()
                .map(|d| d.0)
                .collect();
                Outcome::List(v)
            }
            Req::EntField(m, i, f) => Outcome::Val(match ent_of(hdb, *m, *i) {
                None => ABSENT,
                Some(e) => ent_field(hdb, e, *f),
            }),
            Req::OnEnt(m, i) => Outcome::Val(match ent_of(hdb, *m, *i) {
                None => ABSENT,
                Some(e) => q_on_ent(hdb, e).v,
            }),
            Req::Spec(m, i) => Outcome::Val(match ent_of(hdb, *m, *i) {
                None => ABSENT,
                Some(e) => q_spec(hdb, e).v,
            }),
            Req::Intern(s, v) => {
                let (id, back) = intern_sym(hdb, *s, *v);
                db.ctx()
                    .log
                    .push(Rec::Interned(*s as u8, *v, id.index(), id.generation()));
                Outcome::Val(back)
            }
            Req::Entries => {
                let mut v: Vec<(u32, u32)> = Ent::ingredient(db)
                    .entries(db.zalsa())
                    .map(|e| {
                        let id = e.key().key_index();
                        (id.index(), id.generation())
                    })
                    .collect();
                v.sort();
                Outcome::Ents(v)
            }
        }
    }));
    match r {
        Ok(o) => o,
        Err(p) => {
            let m = payload_msg(&*p);
            Outcome::Panic(classify_panic(&m), m.chars().take(200).collect())
        }
    }
}

pub fn outcome_matches(exp: &Expect, got: &Outcome) -> bool {
    match (exp, got) {
        (Expect::Val(a), Outcome::Val(b)) => a == b,
        (Expect::List(a), Outcome::List(b)) => a == b,
        (Expect::Ents(a), Outcome::Ents(b)) => a == b,
        (Expect::Panic(a), Outcome::Panic(b, _)) => a == b,
        (Expect::OneOf(xs), g) => xs.iter().any(|x| outcome_matches(x, g)),
        _ => false,
    }
}

pub struct Runner {
    pub world: World,
    pub ctx: Arc<Ctx>,
    pub inp: Inputs,
    /// model of field durabilities
    pub durs: Vec<[Dur; 2]>,
    pub lru_cap: usize,
    pub violations: Vec<String>,
    pub writes: u64,
    /// correctly rejected writes to never-change fields / never-change synthetic writes
    pub rejections: u64,
    /// number of retained references re-read so far (C23)
    pub retained_checked: u64,
}

#[derive(Debug, Clone, PartialEq, Eq)]
pub enum WriteResult {
    Ok,
    Panicked(PanicClass, String),
}

impl Runner {
    pub fn new(prog: &Prog, strong_clock: bool) -> Runner {
        let ctx = Ctx::new(prog.clone(), strong_clock);
        crate::sink::attach(&ctx);
        let world = World::new(ctx.clone());
        let inp = Inputs {
            cells: vec![[0, 0]; prog.ncells],
            unt: vec![0; prog.nunt.max(1)],
        };
        Runner {
            world,
            ctx,
            inp,
            durs: vec![[Dur::Low; 2]; prog.ncells],
            lru_cap: 4,
            violations: Vec::new(),
            writes: 0,
            rejections: 0,
            retained_checked: 0,
        }
    }

    pub fn request(&self, req: &Req) -> Outcome {
        self.request_c(req).0
    }

    /// Like `request`, also returning the logical clock of the `Call` record.
    pub fn request_c(&self, req: &Req) -> (Outcome, u64) {
        self.ctx.steps.store(0, Ordering::Relaxed);
        let c = self.ctx.log.push(Rec::Call(0, req.clone()));
        let o = do_request(&self.world, req);
        self.ctx.log.push(Rec::Ret(0, o.clone()));
        (o, c)
    }

    /// Applies a write step to the database and to the model. The model follows what the
    /// implementation is specified to do (a rejected never-change write leaves values unchanged).
    pub fn write(&mut self, step: &Step) -> WriteResult {
        // C23: every reference handed out since the last write must still read the same value
        self.retained_checked += self.ctx.retained.lock().unwrap().len() as u64;
        let bad = self.ctx.check_retained();
        self.violations.extend(bad);
        self.ctx.log.push(Rec::WriteBegin(0));
        self.writes += 1;
        let r = match step {
            Step::Set {
                cell,
                field,
                val,
                dur,
            } => {
                let c = self.ctx.cells.get().unwrap()[*cell];
                let frozen = self.durs[*cell][*field] == Dur::Never;
                let db = &mut self.world;
                let r = catch_unwind(AssertUnwindSafe(|| {
                    if *field == 0 {
                        let s = c.set_a(db);
                        match dur {
                            Some(d) => s.with_durability(sdur(*d)).to(*val),
                            None => s.to(*val),
                        };
                    } else {
                        let s = c.set_b(db);
                        match dur {
                            Some(d) => s.with_durability(sdur(*d)).to(*val),
                            None => s.to(*val),
                        };
                    }
                }));
                match r {
                    Ok(()) => {
                        if frozen {
                            self.violations.push(format!(
                                "write to NEVER_CHANGE field in{cell}.{field} did not panic"
                            ));
                        }
                        self.inp.cells[*cell][*field] = *val;
                        if let Some(d) = dur {
                            self.durs[*cell][*field] = *d;
                        }
                        self.ctx.log.push(Rec::SetField(
                            *cell as u32,
                            *field as u32,
                            *val,
                            self.durs[*cell][*field] as u8,
                        ));
                        WriteResult::Ok
                    }
                    Err(p) => {
                        let m = payload_msg(&*p);
                        let cls = classify_panic(&m);
                        if !frozen || cls != PanicClass::NeverChange {
                            self.violations.push(format!(
                                "unexpected panic on write in{cell}.{field}: {m} (frozen={frozen})"
                            ));
                        } else {
                            self.rejections += 1;
                        }
                        WriteResult::Panicked(cls, m)
                    }
                }
            }
            Step::Synth(d) => {
                let db = &mut self.world;
                let r = catch_unwind(AssertUnwindSafe(|| db.synthetic_write(sdur(*d))));
                match r {
                    Ok(()) => {
                        if *d == Dur::Never {
                            self.violations
                                .push("synthetic_write(NEVER_CHANGE) did not panic".into());
                        }
                        self.ctx.log.push(Rec::Synth(*d as u8));
                        WriteResult::Ok
                    }
                    Err(p) => {
                        let m = payload_msg(&*p);
                        let cls = classify_panic(&m);
                        if *d != Dur::Never || cls != PanicClass::NeverChange {
                            self.violations
                                .push(format!("unexpected panic on synthetic_write({d:?}): {m}"));
                        } else {
                            self.rejections += 1;
                        }
                        WriteResult::Panicked(cls, m)
                    }
                }
            }
            Step::Poke { unt, val, dur } => {
                let db = &mut self.world;
                // no reader may see the new untracked value in the old revision
                db.trigger_cancellation();
                self.ctx.unt[*unt].store(*val, Ordering::Relaxed);
                self.inp.unt[*unt] = *val;
                db.synthetic_write(sdur(*dur));
                self.ctx.log.push(Rec::SetUnt(*unt as u32, *val));
                self.ctx.log.push(Rec::Synth(*dur as u8));
                WriteResult::Ok
            }
            Step::SetLru(n) => {
                set_lru(&mut self.world, *n);
                self.lru_cap = *n;
                self.ctx.log.push(Rec::SetLru(*n as u32));
                WriteResult::Ok
            }
            Step::Evict => {
                self.world.trigger_lru_eviction();
                self.ctx.log.push(Rec::Evict);
                WriteResult::Ok
            }
            Step::Req(_) => unreachable!(),
        };
        self.ctx.log.push(Rec::WriteDone(0, self.world.rev()));
        r
    }

    pub fn expect(&self, req: &Req) -> Expect {
        let prog = &self.ctx.prog;
        match req {
            Req::Entries => {
                // live structs = those created by the *current* from-scratch evaluation of
                // every maker that has a memo; decided by the identity monitor instead.
                Expect::Ents(vec![])
            }
            _ => refint::expect_req(prog, &self.inp, req),
        }
    }

    pub fn take_log(&self) -> Vec<Stamped> {
        self.ctx.log.take()
    }

    /// H3: quiescent structural check. Anomalies direct follow-up requests; they are not verdicts.
    pub fn quiescent_anomalies(&self) -> Vec<String> {
        salsa::verif::quiescent_check(&self.world).0
    }
}

/// A fresh database fed the same current inputs (the literal wording of C01/C02/C26).
pub fn fresh_outcome(prog: &Prog, inp: &Inputs, req: &Req) -> Outcome {
    crate::sink::with_detached(|| fresh_outcome_inner(prog, inp, req))
}

fn fresh_outcome_inner(prog: &Prog, inp: &Inputs, req: &Req) -> Outcome {
    let ctx = Ctx::new(prog.clone(), false);
    ctx.log.enabled.store(false, Ordering::Relaxed);
    let mut w = World::new(ctx.clone());
    for (i, c) in inp.cells.iter().enumerate() {
        let cell = ctx.cells.get().unwrap()[i];
        cell.set_a(&mut w).to(c[0]);
        cell.set_b(&mut w).to(c[1]);
    }
    for (i, u) in inp.unt.iter().enumerate() {
        ctx.unt[i].store(*u, Ordering::Relaxed);
    }
    do_request(&w, req)
}
