//! The salsa embedding: database, inputs, interned / tracked structs, accumulator and the
//! generic tracked functions that interpret a `Prog`.

use std::hash::{Hash, Hasher};
use std::sync::atomic::{AtomicI64, AtomicU16, AtomicU64, Ordering};
use std::sync::{Arc, Mutex, OnceLock};

use salsa::plumbing::AsId;
use salsa::Accumulator;

use crate::log::{ActK, Ev, FnK, K, Log, ReadK, Rec};
use crate::prog::*;

// ---------------------------------------------------------------- context

pub const NTAGS: usize = 64;

pub struct Ctx {
    pub prog: Prog,
    pub unt: Vec<AtomicU16>,
    pub keys: OnceLock<Vec<NodeKey>>,
    pub cells: OnceLock<Vec<Cell>>,
    pub log: Log,
    /// live `V` instances per tag (see `V`)
    pub live: Vec<AtomicI64>,
    /// number of body activations since last reset (logical hang detector)
    pub steps: AtomicU64,
    pub step_bound: AtomicU64,
    pub fault: crate::fault::Fault,
    /// user-code hook invoked at the start of every body (used by concurrent engines)
    pub body_hook: OnceLock<Box<dyn Fn(&Ctx, ActK) + Send + Sync>>,
    /// fn name -> ingredient index, discovered from events
    pub names: Mutex<std::collections::HashMap<u32, String>>,
    /// ingredient indices of the struct ingredients (Ent, then Sym types in `Sym` order)
    pub ent_ing: OnceLock<u32>,
    pub sym_ing: OnceLock<[u32; 5]>,
    /// C23 reference revalidation
    pub retain_refs: std::sync::atomic::AtomicBool,
    /// C08: remember the salsa id of every interned handle (sym type, idx, gen) so that handles
    /// held by validated memos can be read back later
    pub keep_handles: std::sync::atomic::AtomicBool,
    pub handles: Mutex<std::collections::HashMap<(u8, u32, u32), salsa::Id>>,
    pub retained: Mutex<Vec<(usize, u16, u32)>>,
}

impl Ctx {
    pub fn new(prog: Prog, strong_clock: bool) -> Arc<Ctx> {
        let nunt = prog.nunt.max(1);
        Arc::new(Ctx {
            prog,
            unt: (0..nunt).map(|_| AtomicU16::new(0)).collect(),
            keys: OnceLock::new(),
            cells: OnceLock::new(),
            log: Log::new(strong_clock),
            live: (0..NTAGS * 1024).map(|_| AtomicI64::new(0)).collect(),
            steps: AtomicU64::new(0),
            step_bound: AtomicU64::new(u64::MAX),
            fault: crate::fault::Fault::default(),
            body_hook: OnceLock::new(),
            names: Mutex::new(Default::default()),
            ent_ing: OnceLock::new(),
            sym_ing: OnceLock::new(),
            retain_refs: std::sync::atomic::AtomicBool::new(false),
            keep_handles: std::sync::atomic::AtomicBool::new(false),
            handles: Mutex::new(Default::default()),
            retained: Mutex::new(Vec::new()),
        })
    }

    /// Re-reads every retained reference (the database has not been borrowed mutably since they
    /// were handed out) and returns the ones whose value changed.
    pub fn check_retained(&self) -> Vec<String> {
        let list: Vec<(usize, u16, u32)> = std::mem::take(&mut *self.retained.lock().unwrap());
        let mut bad = Vec::new();
        for (p, v, tag) in &list {
            // SAFETY (by the property under test): references returned by tracked functions stay
            // valid until the database is next borrowed mutably.
            let r: &V = unsafe { &*(*p as *const V) };
            if r.v != *v || r.tag != *tag {
                bad.push(format!(
                    "a reference returned earlier in this revision pointed to value {v} (tag {tag}) and now reads {} (tag {})",
                    r.v, r.tag
                ));
            }
        }
        bad
    }

    pub fn node_of(&self, k: NodeKey) -> usize {
        let keys = self.keys.get().expect("keys");
        keys.iter().position(|x| *x == k).expect("unknown NodeKey")
    }

    fn enter(&self, act: ActK) {
        let n = self.steps.fetch_add(1, Ordering::Relaxed);
        self.log.push(Rec::Enter(act));
        if n >= self.step_bound.load(Ordering::Relaxed) {
            panic!("svh-step-bound exceeded");
        }
        if let Some(h) = self.body_hook.get() {
            h(self, act);
        }
        self.fault.step(self, crate::fault::FSite::Body);
    }
}

/// Marks a body activation; logs `Unwound` if dropped during a panic.
struct ActGuard<'a> {
    ctx: &'a Ctx,
    act: ActK,
    done: bool,
}

impl Drop for ActGuard<'_> {
    fn drop(&mut self) {
        if !self.done {
            self.ctx.log.push(Rec::Unwound(self.act));
        }
    }
}

// ---------------------------------------------------------------- value type

/// Result value of every generic function. Carries a tag identifying the producing
/// activation class so live instances can be counted per key (LRU monitor), and calls into
/// the fault injector from `eq` / `clone` / `hash` / `drop`.
pub struct V {
    pub v: u16,
    pub tag: u32,
    ctx: Arc<Ctx>,
}

// SAFETY: `V` contains no database-lifetime references.
unsafe impl salsa::SalsaValue for V {}

impl V {
    pub fn new(ctx: &Arc<Ctx>, tag: u32, v: u16) -> V {
        ctx.live[tag as usize % ctx.live.len()].fetch_add(1, Ordering::Relaxed);
        V {
            v,
            tag,
            ctx: ctx.clone(),
        }
    }
}

impl Drop for V {
    fn drop(&mut self) {
        self.ctx.live[self.tag as usize % self.ctx.live.len()].fetch_sub(1, Ordering::Relaxed);
    }
}

impl Clone for V {
    fn clone(&self) -> Self {
        self.ctx.fault.step(&self.ctx, crate::fault::FSite::Clone);
        V::new(&self.ctx, self.tag, self.v)
    }
}

impl PartialEq for V {
    fn eq(&self, other: &Self) -> bool {
        self.ctx.fault.step(&self.ctx, crate::fault::FSite::Eq);
        self.v == other.v
    }
}
impl Eq for V {}

impl Hash for V {
    fn hash<H: Hasher>(&self, state: &mut H) {
        self.v.hash(state)
    }
}

impl std::fmt::Debug for V {
    fn fmt(&self, f: &mut std::fmt::Formatter<'_>) -> std::fmt::Result {
        write!(f, "V({})", self.v)
    }
}

/// Interned field with a constant hash: all values land in one shard so reclamation is frequent.
#[derive(Clone, Copy, Eq, Debug)]
pub struct KHash(pub u16);

impl PartialEq for KHash {
    fn eq(&self, other: &Self) -> bool {
        crate::sink::fault_step(crate::fault::FSite::KeyEq);
        self.0 == other.0
    }
}

impl Hash for KHash {
    fn hash<H: Hasher>(&self, state: &mut H) {
        crate::sink::fault_step(crate::fault::FSite::KeyHash);
        0u8.hash(state)
    }
}

/// Identity field of `Ent`. While `COLLIDE` is set (per case, before the database is created) all
/// values hash alike, so that structs whose identity values differ meet in the same identity-map
/// entry and take the "identity fields changed: bump the generation" path of re-creation.
#[derive(Clone, Copy, PartialEq, Eq, Debug)]
pub struct IdHash(pub u16);

// SAFETY: `IdHash` contains no database-lifetime references.
unsafe impl salsa::SalsaValue for IdHash {}

pub static COLLIDE: std::sync::atomic::AtomicBool = std::sync::atomic::AtomicBool::new(false);

impl Hash for IdHash {
    fn hash<H: Hasher>(&self, state: &mut H) {
        if COLLIDE.load(Ordering::Relaxed) {
            0u16.hash(state)
        } else {
            self.0.hash(state)
        }
    }
}

/// The second identity field is a function of the first, so a struct whose fields are a mix of two
/// creations is recognisable.
pub fn ident2_of(ident: u16) -> u16 {
    ident.wrapping_mul(3).wrapping_add(1)
}

// ---------------------------------------------------------------- database

#[salsa::db]
pub trait Hdb: salsa::Database {
    fn ctx(&self) -> &Arc<Ctx>;
}

#[salsa::db]
#[derive(Clone)]
pub struct World {
    storage: salsa::Storage<Self>,
    ctx: Arc<Ctx>,
}

#[salsa::db]
impl salsa::Database for World {}

impl World {
    /// Turns this handle into a bare `StorageHandle` and back into a database: the thread-local
    /// state of the old handle (its partly filled pages) is handed back to the shared table.
    pub fn rehandle(self) -> World {
        let World { storage, ctx } = self;
        let h = storage.into_zalsa_handle();
        World {
            storage: h.into_storage(),
            ctx,
        }
    }
}

#[salsa::db]
impl Hdb for World {
    fn ctx(&self) -> &Arc<Ctx> {
        &self.ctx
    }
}

pub fn map_event(e: &salsa::Event) -> Ev {
    use salsa::EventKind as E;
    let rv = |r: salsa::Revision| salsa::verif::revision_number(r) as u64;
    match &e.kind {
        E::DidValidateMemoizedValue { database_key } => Ev::DidValidate(K::of(*database_key)),
        E::WillBlockOn {
            other_thread_id,
            database_key,
        } => Ev::WillBlockOn(
            K::of(*database_key),
            salsa::verif::thread_token(*other_thread_id),
        ),
        E::WillExecute { database_key } => Ev::WillExecute(K::of(*database_key)),
        E::WillIterateCycle {
            database_key,
            iteration,
        } => Ev::WillIterate(K::of(*database_key), *iteration as u32),
        E::DidFinalizeCycle {
            database_key,
            iteration,
        } => Ev::DidFinalize(K::of(*database_key), *iteration as u32),
        E::WillCheckCancellation => Ev::WillCheckCancellation,
        E::DidSetCancellationFlag => Ev::DidSetCancellationFlag,
        E::WillDiscardStaleOutput {
            execute_key,
            output_key,
        } => Ev::WillDiscardStaleOutput(K::of(*execute_key), K::of(*output_key)),
        E::DidDiscard { key } => Ev::DidDiscard(K::of(*key)),
        E::DidDiscardAccumulated { executor_key, .. } => {
            Ev::DidDiscardAccumulated(K::of(*executor_key))
        }
        E::DidInternValue { key, revision } => Ev::DidIntern(K::of(*key), rv(*revision)),
        E::DidReuseInternedValue { key, revision } => {
            Ev::DidReuseInterned(K::of(*key), rv(*revision))
        }
        E::DidValidateInternedValue { key, revision } => {
            Ev::DidValidateInterned(K::of(*key), rv(*revision))
        }
    }
}

impl World {
    pub fn new(ctx: Arc<Ctx>) -> World {
        let c2 = ctx.clone();
        let storage = salsa::Storage::new(Some(Box::new(move |event: salsa::Event| {
            let ev = map_event(&event);
            c2.fault.step_event(&c2, &ev);
            let slow = matches!(
                ev,
                Ev::WillDiscardStaleOutput(..)
                    | Ev::DidDiscard(_)
                    | Ev::DidDiscardAccumulated(_)
                    | Ev::DidReuseInterned(..)
                    | Ev::DidIntern(..)
                    | Ev::DidValidateInterned(..)
            );
            c2.log.push(Rec::Ev(ev));
            if slow {
                // the event callback is user code: it may be slow (concurrent engines only)
                crate::failpoint::event_delay(&c2);
            }
        })));
        let w = World { storage, ctx };
        let n = w.ctx.prog.nodes.len();
        let keys: Vec<NodeKey> = (0..n).map(|_| NodeKey::new(&w)).collect();
        let cells: Vec<Cell> = (0..w.ctx.prog.ncells).map(|_| Cell::new(&w, 0, 0)).collect();
        let _ = w.ctx.keys.set(keys);
        let _ = w.ctx.cells.set(cells);
        {
            use salsa::plumbing::{Ingredient, ZalsaDatabase};
            let ix = |i: salsa::IngredientIndex| salsa::verif::ingredient_index_u32(i);
            let z = w.zalsa();
            let _ = w.ctx.ent_ing.set(ix(Ent::ingredient(&w).ingredient_index()));
            let _ = w.ctx.sym_ing.set([
                ix(SymK1::ingredient(z).ingredient_index()),
                ix(SymK2::ingredient(z).ingredient_index()),
                ix(SymK3::ingredient(z).ingredient_index()),
                ix(SymImm::ingredient(z).ingredient_index()),
                ix(SymR::ingredient(z).ingredient_index()),
            ]);
        }
        w
    }

    pub fn rev(&self) -> u64 {
        salsa::verif::current_revision_number(self) as u64
    }

    pub fn ing_name(&self, ing: u32) -> String {
        let mut names = self.ctx.names.lock().unwrap();
        if let Some(n) = names.get(&ing) {
            return n.clone();
        }
        // ingredient index -> debug name via the public API
        let name = format!("ing{ing}");
        names.insert(ing, name.clone());
        name
    }
}

// ---------------------------------------------------------------- salsa items

#[salsa::input]
pub struct Cell {
    #[returns(copy)]
    pub a: u16,
    #[returns(copy)]
    pub b: u16,
}

#[salsa::input]
pub struct NodeKey {}

#[salsa::interned(revisions = 1)]
pub struct SymK1<'db> {
    #[returns(copy)]
    pub v: KHash,
}

#[salsa::interned(revisions = 2)]
pub struct SymK2<'db> {
    #[returns(copy)]
    pub v: KHash,
}

#[salsa::interned(revisions = 3)]
pub struct SymK3<'db> {
    #[returns(copy)]
    pub v: KHash,
}

#[salsa::interned(revisions = usize::MAX)]
pub struct SymImm<'db> {
    #[returns(copy)]
    pub v: KHash,
}

#[salsa::interned]
pub struct SymR<'db> {
    #[returns(copy)]
    pub v: u16,
}

#[salsa::tracked]
pub struct Ent<'db> {
    #[returns(copy)]
    pub ident: IdHash,
    #[returns(copy)]
    pub ident2: IdHash,
    #[tracked]
    pub t0: V,
    #[tracked]
    pub t1: V,
    #[tracked]
    #[no_eq]
    pub t2: V,
}

#[salsa::accumulator]
#[derive(Debug)]
pub struct Diag(pub u32);

fn one(_: &V) -> usize {
    1
}

#[salsa::tracked]
pub fn q_plain<'db>(db: &'db dyn Hdb, k: NodeKey) -> V {
    body_node(db, FnK::Plain, k, 0)
}

#[salsa::tracked(no_eq)]
pub fn q_noeq<'db>(db: &'db dyn Hdb, k: NodeKey) -> V {
    body_node(db, FnK::NoEq, k, 0)
}

#[salsa::tracked(lru = 4, heap_size = one)]
pub fn q_lru<'db>(db: &'db dyn Hdb, k: NodeKey) -> V {
    body_node(db, FnK::Lru, k, 0)
}

pub fn set_lru(db: &mut World, n: usize) {
    q_lru::set_lru_capacity(db, n);
}

#[salsa::tracked]
pub fn q_multi<'db>(db: &'db dyn Hdb, k: NodeKey, arg: u16) -> V {
    body_node(db, FnK::Multi, k, arg)
}

/// Result of a maker: the structs it created. `PartialEq` is user code salsa runs when it decides
/// whether to backdate the maker, hence a fault-injection site (before the comparison, so that it
/// is reached even when the number of structs changed).
#[derive(Clone, salsa::SalsaValue)]
pub struct MakerOut<'db> {
    pub ents: Vec<Ent<'db>>,
}

impl PartialEq for MakerOut<'_> {
    fn eq(&self, other: &Self) -> bool {
        crate::sink::fault_step(crate::fault::FSite::Eq);
        self.ents == other.ents
    }
}
impl Eq for MakerOut<'_> {}

#[salsa::tracked]
pub fn q_maker<'db>(db: &'db dyn Hdb, k: NodeKey) -> MakerOut<'db> {
    MakerOut { ents: body_maker(db, k) }
}

#[salsa::tracked(lru = 1)]
pub fn q_maker_lru<'db>(db: &'db dyn Hdb, k: NodeKey) -> MakerOut<'db> {
    MakerOut { ents: body_maker(db, k) }
}

/// The structs of maker node `n` (plain or lru-declared maker).
pub fn maker_vec<'db>(db: &'db dyn Hdb, n: usize) -> &'db Vec<Ent<'db>> {
    let ctx = db.ctx();
    let k = ctx.keys.get().unwrap()[n];
    if ctx.prog.nodes[n].lru_maker {
        &q_maker_lru(db, k).ents
    } else {
        &q_maker(db, k).ents
    }
}

#[salsa::tracked]
pub fn q_on_ent<'db>(db: &'db dyn Hdb, e: Ent<'db>) -> V {
    body_ent(db, FnK::OnEnt, e)
}

#[salsa::tracked(specify)]
pub fn q_spec<'db>(db: &'db dyn Hdb, e: Ent<'db>) -> V {
    body_ent(db, FnK::Spec, e)
}

#[salsa::tracked]
pub fn q_on_sym<'db>(db: &'db dyn Hdb, s: SymK1<'db>) -> V {
    let ctx = db.ctx();
    let id = s.as_id();
    let act = ActK {
        f: FnK::OnSym,
        node: 0,
        arg: 0,
        key_idx: id.index(),
        key_gen: id.generation(),
    };
    let mut g = ActGuard {
        ctx,
        act,
        done: false,
    };
    ctx.enter(act);
    let sv = s.v(db).0;
    ctx.log.push(Rec::Read(
        ReadK::Interned(Sym::K1 as u8, id.index(), id.generation()),
        sv,
    ));
    let cx = Cx {
        arg: 0,
        ent: None,
        sym: sv,
        act,
    };
    let v = eval(db, &ctx.prog.on_sym, &cx);
    ctx.log.push(Rec::Exit(act, v));
    g.done = true;
    V::new(ctx, tag_of(act), v)
}

#[salsa::tracked(cycle_initial = fix_initial)]
pub fn q_fix<'db>(db: &'db dyn Hdb, k: NodeKey) -> V {
    body_node(db, FnK::Fix, k, 0)
}

#[salsa::tracked(cycle_initial = fix_initial, lru = 1)]
pub fn q_fix_lru<'db>(db: &'db dyn Hdb, k: NodeKey) -> V {
    body_node(db, FnK::Fix, k, 0)
}

#[salsa::tracked(cycle_fn = fix_join, cycle_initial = fix_initial)]
pub fn q_fixj<'db>(db: &'db dyn Hdb, k: NodeKey) -> V {
    body_node(db, FnK::FixJ, k, 0)
}

#[salsa::tracked(cycle_result = fb_result)]
pub fn q_fb<'db>(db: &'db dyn Hdb, k: NodeKey) -> V {
    body_node(db, FnK::Fb, k, 0)
}

fn fix_initial<'db>(db: &'db dyn Hdb, _id: salsa::Id, k: NodeKey) -> V {
    let ctx = db.ctx();
    let n = ctx.node_of(k);
    ctx.log.push(Rec::CycleInitial(n));
    ctx.fault.step(ctx, crate::fault::FSite::CycleInitial);
    V::new(ctx, (FnK::Fix as u32) * 1024 + n as u32, 0)
}

fn fix_join<'db>(
    db: &'db dyn Hdb,
    cycle: &salsa::Cycle,
    last: &V,
    new: V,
    k: NodeKey,
) -> V {
    let ctx = db.ctx();
    let n = ctx.node_of(k);
    ctx.log
        .push(Rec::CycleFn(n, cycle.iteration(), last.v, new.v));
    ctx.fault.step(ctx, crate::fault::FSite::CycleFn);
    V::new(ctx, new.tag, last.v | new.v)
}

fn fb_result<'db>(db: &'db dyn Hdb, _id: salsa::Id, k: NodeKey) -> V {
    let ctx = db.ctx();
    let n = ctx.node_of(k);
    ctx.log.push(Rec::CycleInitial(n));
    V::new(ctx, (FnK::Fb as u32) * 1024 + n as u32, ctx.prog.nodes[n].fb)
}

// ---------------------------------------------------------------- bodies

pub fn tag_of(a: ActK) -> u32 {
    match a.f {
        FnK::OnEnt | FnK::Spec | FnK::OnSym => (a.f as u32) * 1024 + (a.key_idx % 1024),
        FnK::Multi => (a.f as u32) * 1024 + (a.node * 16 + (a.arg as u32 % 16)) % 1024,
        _ => (a.f as u32) * 1024 + a.node % 1024,
    }
}

#[derive(Clone, Copy)]
struct Cx<'db> {
    arg: u16,
    ent: Option<Ent<'db>>,
    sym: u16,
    act: ActK,
}

fn body_node<'db>(db: &'db dyn Hdb, f: FnK, k: NodeKey, arg: u16) -> V {
    let ctx = db.ctx();
    let n = ctx.node_of(k);
    let id = k.as_id();
    let act = ActK {
        f,
        node: n as u32,
        arg,
        key_idx: id.index(),
        key_gen: id.generation(),
    };
    let mut g = ActGuard {
        ctx,
        act,
        done: false,
    };
    ctx.enter(act);
    let cx = Cx {
        arg,
        ent: None,
        sym: 0,
        act,
    };
    let v = eval(db, &ctx.prog.nodes[n].body, &cx);
    ctx.log.push(Rec::Exit(act, v));
    g.done = true;
    V::new(ctx, tag_of(act), v)
}

fn body_ent<'db>(db: &'db dyn Hdb, f: FnK, e: Ent<'db>) -> V {
    let ctx = db.ctx();
    let id = e.as_id();
    let act = ActK {
        f,
        node: 0,
        arg: 0,
        key_idx: id.index(),
        key_gen: id.generation(),
    };
    let mut g = ActGuard {
        ctx,
        act,
        done: false,
    };
    ctx.enter(act);
    let cx = Cx {
        arg: 0,
        ent: Some(e),
        sym: 0,
        act,
    };
    let body = if f == FnK::Spec {
        &ctx.prog.spec
    } else {
        &ctx.prog.on_ent
    };
    let v = eval(db, body, &cx);
    ctx.log.push(Rec::Exit(act, v));
    g.done = true;
    V::new(ctx, tag_of(act), v)
}

fn body_maker<'db>(db: &'db dyn Hdb, k: NodeKey) -> Vec<Ent<'db>> {
    let ctx = db.ctx();
    let n = ctx.node_of(k);
    let id = k.as_id();
    let act = ActK {
        f: FnK::Maker,
        node: n as u32,
        arg: 0,
        key_idx: id.index(),
        key_gen: id.generation(),
    };
    let mut g = ActGuard {
        ctx,
        act,
        done: false,
    };
    ctx.enter(act);
    let cx = Cx {
        arg: 0,
        ent: None,
        sym: 0,
        act,
    };
    let mut out: Vec<Ent<'db>> = Vec::new();
    for mk in &ctx.prog.nodes[n].mk {
        if eval(db, &mk.when, &cx) == 0 {
            continue;
        }
        let ident = eval(db, &mk.ident, &cx);
        let t0 = eval(db, &mk.t0, &cx);
        let t1 = eval(db, &mk.t1, &cx);
        let t2 = eval(db, &mk.t2, &cx);
        let tg = (FnK::Maker as u32) * 1024 + (n as u32 * 8 + out.len() as u32) % 1024;
        let ent = Ent::new(
            db,
            IdHash(ident),
            IdHash(ident2_of(ident)),
            V::new(ctx, tg, t0),
            V::new(ctx, tg, t1),
            V::new(ctx, tg, t2),
        );
        let eid = ent.as_id();
        ctx.log.push(Rec::Made(
            eid.index(),
            eid.generation(),
            [ident, t0, t1, t2],
            n as u32,
            out.len() as u32,
        ));
        ctx.fault.step(ctx, crate::fault::FSite::Mid);
        let spec_on = match &mk.spec_when {
            Some(w) if mk.specify.is_some() => eval(db, w, &cx) != 0,
            _ => true,
        };
        if let (Some(se), true) = (&mk.specify, spec_on) {
            if mk.pre_read {
                let r = q_spec(db, ent).v;
                ctx.log.push(Rec::Read(
                    ReadK::CallOn(FnK::Spec, eid.index(), eid.generation()),
                    r,
                ));
            }
            let sv = eval(db, se, &cx);
            let stag = (FnK::Spec as u32) * 1024 + (eid.index() % 1024);
            q_spec::specify(db, ent, V::new(ctx, stag, sv));
            ctx.log
                .push(Rec::Specified(eid.index(), eid.generation(), sv));
            if mk.twice {
                q_spec::specify(db, ent, V::new(ctx, stag, sv));
            }
        }
        out.push(ent);
    }
    ctx.log.push(Rec::Exit(act, out.len() as u16));
    g.done = true;
    out
}

/// C23: remembers every reference handed out by a tracked function together with the value it
/// pointed to; `Ctx::check_retained` re-reads all of them just before the next `&mut` step. A memo
/// freed too early shows up as a changed value here and as a report under Miri / ASan.
fn retain<'a>(ctx: &Ctx, v: &'a V) -> &'a V {
    if ctx.retain_refs.load(Ordering::Relaxed) {
        ctx.retained
            .lock()
            .unwrap()
            .push((v as *const V as usize, v.v, v.tag));
    }
    v
}

pub fn call_node<'db>(db: &'db dyn Hdb, n: usize, arg: u16) -> u16 {
    let ctx = db.ctx();
    let k = ctx.keys.get().unwrap()[n];
    match ctx.prog.nodes[n].kind {
        Kind::Plain => retain(ctx, q_plain(db, k)).v,
        Kind::NoEq => retain(ctx, q_noeq(db, k)).v,
        Kind::Lru => retain(ctx, q_lru(db, k)).v,
        Kind::Multi => retain(ctx, q_multi(db, k, arg)).v,
        Kind::Maker => maker_vec(db, n).len() as u16,
        Kind::Fix if ctx.prog.nodes[n].lru_fix => retain(ctx, q_fix_lru(db, k)).v,
        Kind::Fix => retain(ctx, q_fix(db, k)).v,
        Kind::FixJ => retain(ctx, q_fixj(db, k)).v,
        Kind::Fb => retain(ctx, q_fb(db, k)).v,
    }
}

pub fn fnk_of(kind: Kind) -> FnK {
    match kind {
        Kind::Plain => FnK::Plain,
        Kind::NoEq => FnK::NoEq,
        Kind::Lru => FnK::Lru,
        Kind::Multi => FnK::Multi,
        Kind::Maker => FnK::Maker,
        Kind::Fix => FnK::Fix,
        Kind::FixJ => FnK::FixJ,
        Kind::Fb => FnK::Fb,
    }
}

pub fn ent_of<'db>(db: &'db dyn Hdb, m: usize, i: usize) -> Option<Ent<'db>> {
    maker_vec(db, m).get(i).copied()
}

pub fn ent_field<'db>(db: &'db dyn Hdb, e: Ent<'db>, f: Fld) -> u16 {
    match f {
        Fld::Ident => {
            let (a, b) = (e.ident(db).0, e.ident2(db).0);
            // identity fields of two different creations mixed in one struct: make it visible
            if b == ident2_of(a) { a } else { 0xFFFE }
        }
        Fld::T0 => e.t0(db).v,
        Fld::T1 => e.t1(db).v,
        Fld::T2 => e.t2(db).v,
    }
}

/// Reads the field of an interned handle through its id (top level, outside any query).
pub fn read_sym(db: &dyn Hdb, s: Sym, id: salsa::Id) -> u16 {
    use salsa::plumbing::FromId;
    match s {
        Sym::K1 => SymK1::from_id(id).v(db).0,
        Sym::K2 => SymK2::from_id(id).v(db).0,
        Sym::K3 => SymK3::from_id(id).v(db).0,
        Sym::Imm => SymImm::from_id(id).v(db).0,
        Sym::R => SymR::from_id(id).v(db),
    }
}

pub fn intern_sym<'db>(db: &'db dyn Hdb, s: Sym, v: u16) -> (salsa::Id, u16) {
    match s {
        Sym::K1 => {
            let h = SymK1::new(db, KHash(v));
            (h.as_id(), h.v(db).0)
        }
        Sym::K2 => {
            let h = SymK2::new(db, KHash(v));
            (h.as_id(), h.v(db).0)
        }
        Sym::K3 => {
            let h = SymK3::new(db, KHash(v));
            (h.as_id(), h.v(db).0)
        }
        Sym::Imm => {
            let h = SymImm::new(db, KHash(v));
            (h.as_id(), h.v(db).0)
        }
        Sym::R => {
            let h = SymR::new(db, v);
            (h.as_id(), h.v(db))
        }
    }
}

fn eval<'db>(db: &'db dyn Hdb, e: &Expr, cx: &Cx<'db>) -> u16 {
    let ctx = db.ctx();
    match e {
        Expr::Const(c) => *c,
        Expr::In(c, f) => {
            let cell = ctx.cells.get().unwrap()[*c];
            let v = if *f == 0 { cell.a(db) } else { cell.b(db) };
            ctx.log.push(Rec::Read(ReadK::In(*c as u32, *f as u32), v));
            ctx.fault.step(ctx, crate::fault::FSite::Mid);
            v
        }
        Expr::Call(n) => {
            let v = call_node(db, *n, 0);
            ctx.log.push(Rec::Read(
                ReadK::Call(fnk_of(ctx.prog.nodes[*n].kind), *n as u32, 0),
                v,
            ));
            ctx.fault.step(ctx, crate::fault::FSite::Mid);
            v
        }
        Expr::CallMulti(n, a) => {
            let a = eval(db, a, cx);
            let v = call_node(db, *n, a);
            ctx.log.push(Rec::Read(
                ReadK::Call(fnk_of(ctx.prog.nodes[*n].kind), *n as u32, a),
                v,
            ));
            v
        }
        Expr::Arg => cx.arg,
        Expr::Untracked(c) => {
            db.report_untracked_read();
            let v = ctx.unt[*c].load(Ordering::Relaxed);
            ctx.log.push(Rec::Read(ReadK::Unt(*c as u32), v));
            v
        }
        Expr::If(c, t, f) => {
            if eval(db, c, cx) != 0 {
                eval(db, t, cx)
            } else {
                eval(db, f, cx)
            }
        }
        Expr::Bin(op, a, b) => {
            let a = eval(db, a, cx);
            let b = eval(db, b, cx);
            op.apply(a, b)
        }
        Expr::EntField(m, i, f) => {
            let n = call_node(db, *m, 0);
            ctx.log
                .push(Rec::Read(ReadK::Call(FnK::Maker, *m as u32, 0), n));
            match ent_of(db, *m, *i) {
                None => ABSENT,
                Some(e) => {
                    let v = ent_field(db, e, *f);
                    let id = e.as_id();
                    ctx.log.push(Rec::Read(
                        ReadK::Field(id.index(), id.generation(), *f as u8),
                        v,
                    ));
                    v
                }
            }
        }
        Expr::OnEnt(m, i) => {
            let n = call_node(db, *m, 0);
            ctx.log
                .push(Rec::Read(ReadK::Call(FnK::Maker, *m as u32, 0), n));
            match ent_of(db, *m, *i) {
                None => ABSENT,
                Some(e) => {
                    let v = q_on_ent(db, e).v;
                    let id = e.as_id();
                    ctx.log.push(Rec::Read(
                        ReadK::CallOn(FnK::OnEnt, id.index(), id.generation()),
                        v,
                    ));
                    v
                }
            }
        }
        Expr::Spec(m, i) => {
            let n = call_node(db, *m, 0);
            ctx.log
                .push(Rec::Read(ReadK::Call(FnK::Maker, *m as u32, 0), n));
            match ent_of(db, *m, *i) {
                None => ABSENT,
                Some(e) => {
                    let v = q_spec(db, e).v;
                    let id = e.as_id();
                    ctx.log.push(Rec::Read(
                        ReadK::CallOn(FnK::Spec, id.index(), id.generation()),
                        v,
                    ));
                    v
                }
            }
        }
        Expr::SpecForeign(m, i) => {
            let n = call_node(db, *m, 0);
            ctx.log
                .push(Rec::Read(ReadK::Call(FnK::Maker, *m as u32, 0), n));
            match ent_of(db, *m, *i) {
                None => ABSENT,
                Some(e) => {
                    q_spec::specify(db, e, V::new(ctx, 0, 1));
                    1
                }
            }
        }
        Expr::SelfField(f) => match cx.ent {
            None => 0,
            Some(e) => {
                let v = ent_field(db, e, *f);
                let id = e.as_id();
                ctx.log.push(Rec::Read(
                    ReadK::Field(id.index(), id.generation(), *f as u8),
                    v,
                ));
                v
            }
        },
        Expr::Intern(s, e) => {
            let v = eval(db, e, cx);
            let (id, back) = intern_sym(db, *s, v);
            if ctx.keep_handles.load(Ordering::Relaxed) {
                ctx.handles
                    .lock()
                    .unwrap()
                    .insert((*s as u8, id.index(), id.generation()), id);
            }
            ctx.log
                .push(Rec::Interned(*s as u8, v, id.index(), id.generation()));
            ctx.log.push(Rec::Read(
                ReadK::Interned(*s as u8, id.index(), id.generation()),
                back,
            ));
            ctx.fault.step(ctx, crate::fault::FSite::Mid);
            back
        }
        Expr::OnSym(e) => {
            let v = eval(db, e, cx);
            let h = SymK1::new(db, KHash(v));
            let id = h.as_id();
            if ctx.keep_handles.load(Ordering::Relaxed) {
                ctx.handles
                    .lock()
                    .unwrap()
                    .insert((Sym::K1 as u8, id.index(), id.generation()), id);
            }
            ctx.log
                .push(Rec::Interned(Sym::K1 as u8, v, id.index(), id.generation()));
            let r = q_on_sym(db, h).v;
            ctx.log.push(Rec::Read(
                ReadK::CallOn(FnK::OnSym, id.index(), id.generation()),
                r,
            ));
            r
        }
        Expr::SelfSym => cx.sym,
        Expr::PeekZ(n, m, g) => {
            let c = call_node(db, *n, 0);
            ctx.log.push(Rec::Read(
                ReadK::Call(fnk_of(ctx.prog.nodes[*n].kind), *n as u32, 0),
                c,
            ));
            let g = eval(db, g, cx);
            if c == 0 {
                let r = call_node(db, *m, 0);
                ctx.log.push(Rec::Read(
                    ReadK::Call(fnk_of(ctx.prog.nodes[*m].kind), *m as u32, 0),
                    r,
                ));
                (r & g) | g
            } else {
                c | g
            }
        }
        Expr::PeekNZ(n, m, g) => {
            let c = call_node(db, *n, 0);
            ctx.log.push(Rec::Read(
                ReadK::Call(fnk_of(ctx.prog.nodes[*n].kind), *n as u32, 0),
                c,
            ));
            let g = eval(db, g, cx);
            if c != 0 {
                let r = call_node(db, *m, 0);
                ctx.log.push(Rec::Read(
                    ReadK::Call(fnk_of(ctx.prog.nodes[*m].kind), *m as u32, 0),
                    r,
                ));
                c | r | g
            } else {
                g
            }
        }
        Expr::Acc(e) => {
            let v = eval(db, e, cx);
            let x = (act_tag(cx.act) << 16) | v as u32;
            Diag(x).accumulate(db);
            ctx.log.push(Rec::Pushed(x));
            ctx.fault.step(ctx, crate::fault::FSite::Mid);
            v
        }
    }
}

/// Tag embedded in accumulated values; mirrors `refint::act_tag` using what the body can know.
/// For struct-keyed functions the reference uses (maker, position); the salsa side cannot know
/// that inside the body, so both sides use a key-independent class tag for those.
pub fn act_tag(a: ActK) -> u32 {
    match a.f {
        FnK::OnEnt => 2 << 12,
        FnK::Spec => 3 << 12,
        FnK::OnSym => 4 << 12,
        _ => (1 << 12) | ((a.node & 0x3f) << 4) | (a.arg as u32 & 0xf),
    }
}
