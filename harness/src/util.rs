//! Small utilities: deterministic PRNG, JSON string building, hashing.

#[derive(Clone, Debug)]
pub struct Rng(pub u64);

impl Rng {
    pub fn new(seed: u64) -> Self {
        Rng(seed.wrapping_mul(0x9E37_79B9_7F4A_7C15) ^ 0xD1B5_4A32_D192_ED03)
    }
    /// splitmix64
    pub fn next(&mut self) -> u64 {
        self.0 = self.0.wrapping_add(0x9E37_79B9_7F4A_7C15);
        let mut z = self.0;
        z = (z ^ (z >> 30)).wrapping_mul(0xBF58_476D_1CE4_E5B9);
        z = (z ^ (z >> 27)).wrapping_mul(0x94D0_49BB_1331_11EB);
        z ^ (z >> 31)
    }
    pub fn below(&mut self, n: usize) -> usize {
        if n == 0 { 0 } else { (self.next() % n as u64) as usize }
    }
    pub fn range(&mut self, lo: usize, hi_incl: usize) -> usize {
        lo + self.below(hi_incl - lo + 1)
    }
    pub fn chance(&mut self, num: u32, den: u32) -> bool {
        (self.next() % den as u64) < num as u64
    }
    pub fn pick<'a, T>(&mut self, xs: &'a [T]) -> &'a T {
        &xs[self.below(xs.len())]
    }
    pub fn fork(&mut self) -> Rng {
        Rng::new(self.next())
    }
}

pub fn mix(a: u64, b: u64) -> u64 {
    let mut r = Rng::new(a ^ b.rotate_left(29).wrapping_mul(0xA24B_AED4_963E_E407));
    r.next()
}

pub fn hash_str(s: &str) -> u64 {
    // FNV-1a 64
    let mut h: u64 = 0xcbf2_9ce4_8422_2325;
    for b in s.bytes() {
        h ^= b as u64;
        h = h.wrapping_mul(0x1000_0000_01b3);
    }
    h
}

pub fn json_str(s: &str) -> String {
    let mut o = String::with_capacity(s.len() + 2);
    o.push('"');
    for c in s.chars() {
        match c {
            '"' => o.push_str("\\\""),
            '\\' => o.push_str("\\\\"),
            '\n' => o.push_str("\\n"),
            '\r' => o.push_str("\\r"),
            '\t' => o.push_str("\\t"),
            c if (c as u32) < 0x20 => o.push_str(&format!("\\u{:04x}", c as u32)),
            c => o.push(c),
        }
    }
    o.push('"');
    o
}

/// Minimal ordered JSON object builder.
#[derive(Default, Clone)]
pub struct JObj(Vec<(String, String)>);

impl JObj {
    pub fn new() -> Self {
        JObj(Vec::new())
    }
    pub fn raw(mut self, k: &str, v: String) -> Self {
        self.0.push((k.to_string(), v));
        self
    }
    pub fn s(self, k: &str, v: &str) -> Self {
        let v = json_str(v);
        self.raw(k, v)
    }
    pub fn n(self, k: &str, v: u64) -> Self {
        self.raw(k, v.to_string())
    }
    pub fn i(self, k: &str, v: i64) -> Self {
        self.raw(k, v.to_string())
    }
    pub fn b(self, k: &str, v: bool) -> Self {
        self.raw(k, v.to_string())
    }
    pub fn arr(self, k: &str, v: &[String]) -> Self {
        let v = format!("[{}]", v.join(","));
        self.raw(k, v)
    }
    pub fn strs(self, k: &str, v: &[String]) -> Self {
        let v: Vec<String> = v.iter().map(|s| json_str(s)).collect();
        self.arr(k, &v)
    }
    pub fn build(&self) -> String {
        let parts: Vec<String> = self
            .0
            .iter()
            .map(|(k, v)| format!("{}:{}", json_str(k), v))
            .collect();
        format!("{{{}}}", parts.join(","))
    }
}

/// Counter map with stable order.
#[derive(Default, Clone, Debug)]
pub struct Counts(pub std::collections::BTreeMap<String, u64>);

impl Counts {
    pub fn add(&mut self, k: &str, n: u64) {
        *self.0.entry(k.to_string()).or_insert(0) += n;
    }
    pub fn inc(&mut self, k: &str) {
        self.add(k, 1)
    }
    pub fn get(&self, k: &str) -> u64 {
        self.0.get(k).copied().unwrap_or(0)
    }
    pub fn merge(&mut self, o: &Counts) {
        for (k, v) in &o.0 {
            self.add(k, *v);
        }
    }
    pub fn json(&self) -> String {
        let mut o = JObj::new();
        for (k, v) in &self.0 {
            o = o.n(k, *v);
        }
        o.build()
    }
}
