//! Thread / synchronisation shim: std or shuttle, matching salsa's own choice.

#[cfg(not(feature = "shuttle"))]
mod imp {
    pub use std::sync::Mutex;
    pub use std::thread::{JoinHandle, spawn};
    pub fn yield_now() {
        std::thread::yield_now()
    }
    pub fn sleep_us(us: u64) {
        std::thread::sleep(std::time::Duration::from_micros(us))
    }
}

#[cfg(feature = "shuttle")]
mod imp {
    pub use shuttle::sync::Mutex;
    pub use shuttle::thread::{JoinHandle, spawn};
    pub fn yield_now() {
        shuttle::thread::yield_now()
    }
    pub fn sleep_us(_us: u64) {
        shuttle::thread::yield_now()
    }
}

pub use imp::*;
