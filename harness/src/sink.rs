//! Process-global sink for salsa's verification hooks, forwarding to the context of the
//! case that is currently running (one case at a time per process).

use std::sync::atomic::{AtomicBool, AtomicPtr, AtomicU64, Ordering};
use std::sync::{Arc, Mutex};

use salsa::verif::{DgOp, Obs, Site};

use crate::log::{K, Rec};
use crate::world::Ctx;

static CUR: AtomicPtr<Ctx> = AtomicPtr::new(std::ptr::null_mut());
static KEEP: Mutex<Option<Arc<Ctx>>> = Mutex::new(None);
static INSTALLED: AtomicBool = AtomicBool::new(false);

/// Options of the currently running case.
pub static TRACE_DG: AtomicBool = AtomicBool::new(false);
/// Concurrent campaigns: after the threads have joined, read back every interned handle held by
/// a memo that a request of the final revision validated.
pub static READ_BACK: AtomicBool = AtomicBool::new(false);
/// ThreadSanitizer runs: the harness's logical clock uses relaxed increments so that it adds no
/// happens-before edges that could hide races in salsa; ordering-based monitors are then off.
pub static RELAXED_CLOCK: AtomicBool = AtomicBool::new(false);
pub static LOG_FP: AtomicBool = AtomicBool::new(false);
/// delays inside the event callback (see `failpoint::event_delay`); on during the parallel phase
pub static EV_DELAY: AtomicBool = AtomicBool::new(false);
/// failpoint delay profile: 0 = off
pub static FP_PROFILE: AtomicU64 = AtomicU64::new(0);
pub static FP_SEED: AtomicU64 = AtomicU64::new(0);
pub static FP_VISITS: AtomicU64 = AtomicU64::new(0);

struct S;

fn cur() -> Option<&'static Ctx> {
    let p = CUR.load(Ordering::Relaxed);
    if p.is_null() {
        None
    } else {
        // SAFETY: `KEEP` holds an `Arc` to the pointee until `clear` is called, which happens
        // only after every thread of the case has been joined.
        Some(unsafe { &*p })
    }
}

impl salsa::verif::Sink for S {
    fn failpoint(&self, site: Site) {
        let prof = FP_PROFILE.load(Ordering::Relaxed);
        if prof == 0 {
            return;
        }
        let n = FP_VISITS.fetch_add(1, Ordering::Relaxed);
        if let Some(ctx) = cur() {
            if LOG_FP.load(Ordering::Relaxed) {
                ctx.log.push(Rec::Fp(site));
            }
            crate::failpoint::visit(ctx, site, prof, FP_SEED.load(Ordering::Relaxed), n);
        }
    }

    fn trace(&self, op: DgOp) {
        if !TRACE_DG.load(Ordering::Relaxed) {
            return;
        }
        if let Some(ctx) = cur() {
            ctx.log.push(Rec::Dg(op));
        }
    }

    fn obs(&self, o: Obs) {
        if let Some(ctx) = cur() {
            match o {
                Obs::InternedDependencyChecked { key, changed } => {
                    ctx.log.push(Rec::InternChecked(K::of(key), changed));
                }
            }
        }
    }
}

pub fn install() {
    if !INSTALLED.swap(true, Ordering::SeqCst) {
        salsa::verif::set_sink(Box::new(S));
    }
}

/// Makes `ctx` the receiver of hook observations until `clear` is called.
pub fn attach(ctx: &Arc<Ctx>) {
    install();
    *KEEP.lock().unwrap() = Some(ctx.clone());
    CUR.store(Arc::as_ptr(ctx) as *mut Ctx, Ordering::SeqCst);
}

pub fn clear() {
    CUR.store(std::ptr::null_mut(), Ordering::SeqCst);
    *KEEP.lock().unwrap() = None;
}

/// Runs `f` with no receiver attached (used for auxiliary databases such as the fresh-db cross-check).
pub fn with_detached<R>(f: impl FnOnce() -> R) -> R {
    let prev = CUR.swap(std::ptr::null_mut(), Ordering::SeqCst);
    let r = f();
    CUR.store(prev, Ordering::SeqCst);
    r
}

/// Fault-injection step for user code that has no access to the context (interned key `Hash`/`Eq`).
pub fn fault_step(site: crate::fault::FSite) {
    if let Some(ctx) = cur() {
        ctx.fault.step(ctx, site);
    }
}
