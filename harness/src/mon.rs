//! Offline monitors over the recorded event log.

use std::collections::{BTreeMap, BTreeSet, HashMap, HashSet};

use crate::log::*;
use crate::prog::*;
use crate::util::Counts;

/// Pairs every `WillExecute(K)` with the body `Enter` that follows it on the same thread,
/// yielding the mapping salsa key -> logical activation.
pub fn key_map(log: &[Stamped]) -> HashMap<K, ActK> {
    let mut pending: HashMap<u8, K> = HashMap::new();
    let mut map = HashMap::new();
    for (_, th, r) in log {
        match r {
            Rec::Ev(Ev::WillExecute(k)) => {
                pending.insert(*th, *k);
            }
            Rec::Enter(a) => {
                if let Some(k) = pending.remove(th) {
                    map.insert(k, *a);
                }
            }
            _ => {}
        }
    }
    map
}

/// One completed or aborted execution of a function body.
#[derive(Clone, Debug)]
pub struct Exec {
    pub key: K,
    pub act: ActK,
    pub th: u8,
    pub start: u64,
    pub end: u64,
    pub rev: u64,
    pub reads: Vec<(ReadK, u16)>,
    pub value: Option<u16>,
    pub untracked: bool,
    pub pushes: Vec<u32>,
    pub made: Vec<(u32, u32, [u16; 4], u32)>,
    /// reads and creations in program order: (clock, item)
    pub items: Vec<(u64, Item)>,
}

#[derive(Clone, Debug)]
pub enum Item {
    Read(ReadK, u16),
    Made(u32, u32, [u16; 4]),
    Interned(u8, u16, u32, u32),
}

/// Reconstructs executions (with their own direct reads) from the log.
pub fn executions(log: &[Stamped]) -> Vec<Exec> {
    let mut out: Vec<Exec> = Vec::new();
    // per thread stack of indices into `out`
    let mut stacks: HashMap<u8, Vec<usize>> = HashMap::new();
    let mut pending: HashMap<u8, K> = HashMap::new();
    let mut rev: u64 = 1;
    for (c, th, r) in log {
        match r {
            Rec::WriteDone(_, r) => rev = *r,
            Rec::Ev(Ev::WillExecute(k)) => {
                pending.insert(*th, *k);
            }
            Rec::Enter(a) => {
                let key = pending.remove(th).unwrap_or(K {
                    ing: u32::MAX,
                    idx: a.key_idx,
                    gener: a.key_gen,
                });
                out.push(Exec {
                    key,
                    act: *a,
                    th: *th,
                    start: *c,
                    end: 0,
                    rev,
                    reads: vec![],
                    value: None,
                    untracked: false,
                    pushes: vec![],
                    made: vec![],
                    items: vec![],
                });
                stacks.entry(*th).or_default().push(out.len() - 1);
            }
            Rec::Read(k, v) => {
                if let Some(&i) = stacks.get(th).and_then(|s| s.last()) {
                    if matches!(k, ReadK::Unt(_)) {
                        out[i].untracked = true;
                    }
                    out[i].reads.push((*k, *v));
                    out[i].items.push((*c, Item::Read(*k, *v)));
                }
            }
            Rec::Pushed(x) => {
                if let Some(&i) = stacks.get(th).and_then(|s| s.last()) {
                    out[i].pushes.push(*x);
                }
            }
            Rec::Made(idx, g, f, _m, pos) => {
                if let Some(&i) = stacks.get(th).and_then(|s| s.last()) {
                    out[i].made.push((*idx, *g, *f, *pos));
                    out[i].items.push((*c, Item::Made(*idx, *g, *f)));
                }
            }
            Rec::Interned(t, v, idx, g) => {
                if let Some(&i) = stacks.get(th).and_then(|s| s.last()) {
                    out[i].items.push((*c, Item::Interned(*t, *v, *idx, *g)));
                }
            }
            Rec::Exit(a, v) => {
                if let Some(s) = stacks.get_mut(th) {
                    if let Some(i) = s.pop() {
                        debug_assert_eq!(out[i].act, *a);
                        out[i].value = Some(*v);
                        out[i].end = *c;
                    }
                }
            }
            Rec::Unwound(_) => {
                if let Some(s) = stacks.get_mut(th) {
                    if let Some(i) = s.pop() {
                        out[i].end = *c;
                    }
                }
            }
            _ => {}
        }
    }
    out
}

/// General statistics used for non-triviality rules.
pub fn basic_stats(log: &[Stamped]) -> Counts {
    let mut c = Counts::default();
    let mut executed: HashMap<K, u16> = HashMap::new(); // last value
    let mut pending: HashMap<u8, K> = HashMap::new();
    let mut cur: HashMap<u8, Vec<K>> = HashMap::new();
    let mut writes = 0u64;
    for (_, th, r) in log {
        match r {
            Rec::Ev(e) => {
                match e {
                    Ev::DidValidate(_) => c.inc("ev_validate"),
                    Ev::WillExecute(k) => {
                        c.inc("ev_execute");
                        if executed.contains_key(k) {
                            c.inc("reexecutions");
                            if writes > 0 {
                                c.inc("reexec_after_write");
                            }
                        }
                        pending.insert(*th, *k);
                    }
                    Ev::WillIterate(..) => c.inc("ev_iterate"),
                    Ev::DidFinalize(..) => c.inc("ev_finalize"),
                    Ev::WillDiscardStaleOutput(..) => c.inc("ev_discard_stale"),
                    Ev::DidDiscard(_) => c.inc("ev_did_discard"),
                    Ev::DidIntern(..) => c.inc("ev_intern"),
                    Ev::DidReuseInterned(..) => c.inc("ev_reuse_interned"),
                    Ev::DidValidateInterned(..) => c.inc("ev_validate_interned"),
                    Ev::WillBlockOn(..) => c.inc("ev_block_on"),
                    Ev::DidSetCancellationFlag => c.inc("ev_cancel_flag"),
                    Ev::WillCheckCancellation => {}
                    Ev::DidDiscardAccumulated(_) => c.inc("ev_discard_acc"),
                }
            }
            Rec::Enter(_) => {
                let k = pending.remove(th).unwrap_or(K {
                    ing: u32::MAX,
                    idx: 0,
                    gener: 0,
                });
                cur.entry(*th).or_default().push(k);
            }
            Rec::Exit(_, v) => {
                if let Some(k) = cur.get_mut(th).and_then(|s| s.pop()) {
                    if let Some(prev) = executed.insert(k, *v) {
                        if prev == *v {
                            c.inc("equal_reexec");
                        } else {
                            c.inc("changed_reexec");
                        }
                    }
                }
            }
            Rec::Unwound(_) => {
                cur.get_mut(th).and_then(|s| s.pop());
                c.inc("unwound");
            }
            Rec::WriteDone(..) => {
                writes += 1;
                c.inc("writes");
            }
            Rec::Call(..) => c.inc("requests"),
            Rec::Made(..) => c.inc("structs_made"),
            Rec::Interned(..) => c.inc("interned"),
            Rec::Pushed(_) => c.inc("pushed"),
            Rec::Specified(..) => c.inc("specified"),
            Rec::Ret(_, Outcome::Panic(..)) => c.inc("panics_returned"),
            _ => {}
        }
    }
    c
}

/// Hash of the sequence of (thread, kind) over scheduling-relevant events: identifies an
/// interleaving up to data values.
pub fn interleaving_hash(log: &[Stamped]) -> u64 {
    let mut h: u64 = 0xcbf29ce484222325;
    let mut mixb = |b: u64| {
        h ^= b;
        h = h.wrapping_mul(0x100000001b3);
    };
    for (_, th, r) in log {
        let code: u64 = match r {
            Rec::Ev(Ev::WillExecute(k)) => 1 | ((k.idx as u64) << 8) | ((k.ing as u64) << 32),
            Rec::Ev(Ev::WillBlockOn(k, _)) => 2 | ((k.idx as u64) << 8) | ((k.ing as u64) << 32),
            Rec::Ev(Ev::DidValidate(k)) => 3 | ((k.idx as u64) << 8) | ((k.ing as u64) << 32),
            Rec::Ev(Ev::WillIterate(k, i)) => 4 | ((k.idx as u64) << 8) | ((*i as u64) << 40),
            Rec::Ev(Ev::DidSetCancellationFlag) => 5,
            Rec::Exit(a, _) => 6 | ((a.node as u64) << 8),
            Rec::Unwound(a) => 7 | ((a.node as u64) << 8),
            Rec::Ret(h, _) => 8 | ((*h as u64) << 8),
            Rec::Dg(_) => 9,
            _ => continue,
        };
        mixb(code);
        mixb(*th as u64);
    }
    h
}

pub fn _unused(_: BTreeMap<u8, u8>, _: BTreeSet<u8>, _: HashSet<u8>, _: &Prog) {}
