//! Fault injection into user code: every user-code step (body start, `V::eq`, `V::clone`,
//! cycle functions, event callback by kind) is counted; an armed plan panics at step N.

use std::sync::atomic::{AtomicBool, AtomicU64, Ordering};

use crate::log::{Ev, Rec};
use crate::world::Ctx;

#[derive(Clone, Copy, PartialEq, Eq, Debug, Hash)]
#[repr(u8)]
pub enum FSite {
    Body = 0,
    Eq = 1,
    Clone = 2,
    CycleInitial = 3,
    CycleFn = 4,
    EvWillExecute = 5,
    EvDidValidate = 6,
    EvDiscard = 7,
    EvIntern = 8,
    EvCycle = 9,
    EvCancel = 10,
    EvOther = 11,
    /// `Hash` / `Eq` of an interned key
    KeyHash = 12,
    KeyEq = 13,
    /// inside a body, after a read / call / creation returned
    Mid = 14,
}

pub const FSITE_NAMES: [&str; 15] = [
    "Body",
    "Eq",
    "Clone",
    "CycleInitial",
    "CycleFn",
    "EvWillExecute",
    "EvDidValidate",
    "EvDiscard",
    "EvIntern",
    "EvCycle",
    "EvCancel",
    "EvOther",
    "KeyHash",
    "KeyEq",
    "Mid",
];

#[derive(Default)]
pub struct Fault {
    /// counting is enabled
    pub counting: AtomicBool,
    pub count: AtomicU64,
    /// panic when `count` reaches this value (0 = disarmed)
    pub at: AtomicU64,
    /// site mask: which sites are counted
    pub mask: AtomicU64,
    pub fired_site: AtomicU64,
}

impl Fault {
    pub fn arm(&self, mask: u64, at: u64) {
        self.count.store(0, Ordering::Relaxed);
        self.mask.store(mask, Ordering::Relaxed);
        self.at.store(at, Ordering::Relaxed);
        self.fired_site.store(u64::MAX, Ordering::Relaxed);
        self.counting.store(true, Ordering::Relaxed);
    }

    pub fn disarm(&self) -> u64 {
        self.counting.store(false, Ordering::Relaxed);
        self.at.store(0, Ordering::Relaxed);
        self.count.load(Ordering::Relaxed)
    }

    #[inline]
    pub fn step(&self, ctx: &Ctx, site: FSite) {
        if !self.counting.load(Ordering::Relaxed) {
            return;
        }
        if self.mask.load(Ordering::Relaxed) & (1 << site as u8) == 0 {
            return;
        }
        let n = self.count.fetch_add(1, Ordering::Relaxed) + 1;
        if n == self.at.load(Ordering::Relaxed) {
            self.fired_site.store(site as u64, Ordering::Relaxed);
            ctx.log.push(Rec::Fault(site as u32, n));
            panic!("svh-injected-fault at step {n} site {site:?}");
        }
    }

    pub fn step_event(&self, ctx: &Ctx, ev: &Ev) {
        if !self.counting.load(Ordering::Relaxed) {
            return;
        }
        let site = match ev {
            Ev::WillExecute(_) => FSite::EvWillExecute,
            Ev::DidValidate(_) => FSite::EvDidValidate,
            Ev::WillDiscardStaleOutput(..) | Ev::DidDiscard(_) | Ev::DidDiscardAccumulated(_) => {
                FSite::EvDiscard
            }
            Ev::DidIntern(..) | Ev::DidReuseInterned(..) | Ev::DidValidateInterned(..) => {
                FSite::EvIntern
            }
            Ev::WillIterate(..) | Ev::DidFinalize(..) => FSite::EvCycle,
            Ev::WillCheckCancellation | Ev::DidSetCancellationFlag => FSite::EvCancel,
            Ev::WillBlockOn(..) => FSite::EvOther,
        };
        self.step(ctx, site);
    }
}
