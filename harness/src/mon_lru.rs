//! C05: exact LRU model replayed over the log, compared with the boundary observation
//! (`LiveSample`: does a result value of lru node n still exist right after a write?).

use std::collections::HashMap;

use crate::log::*;
use crate::mon;
use crate::prog::*;
use crate::util::Counts;

pub fn check(prog: &Prog, log: &[Stamped]) -> (Vec<String>, Counts) {
    let (v, c, _) = replay(prog, log);
    (v, c)
}

/// Replays the LRU model; also returns the eviction points (clock, node) where a value was dropped.
pub fn replay(prog: &Prog, log: &[Stamped]) -> (Vec<String>, Counts, Vec<(u64, u32)>) {
    let mut evs: Vec<(u64, u32)> = Vec::new();
    let mut viol = Vec::new();
    let mut c = Counts::default();
    let is_lru = |n: u32| prog.nodes.get(n as usize).map(|x| x.kind) == Some(Kind::Lru);
    // which executions of lru nodes had an untracked read of their own
    let execs = mon::executions(log);
    let mut unt_at_exit: HashMap<u64, bool> = HashMap::new();
    for e in &execs {
        if e.act.f == FnK::Lru && e.value.is_some() {
            unt_at_exit.insert(e.end, e.untracked);
        }
    }
    let mut cap: usize = 4;
    let mut order: Vec<u32> = Vec::new(); // front = least recently requested
    let mut has_value: HashMap<u32, bool> = HashMap::new();
    let mut untracked: HashMap<u32, bool> = HashMap::new();
    let mut pending_top: Option<u32> = None;
    let mut rev: u64 = 1;
    let mut evicted_keys: HashMap<u32, bool> = HashMap::new();
    let mut record_use = |order: &mut Vec<u32>, cap: usize, n: u32| {
        if cap != 0 {
            order.retain(|x| *x != n);
            order.push(n);
        }
    };
    let mut evict = |clk: u64,
                     evs: &mut Vec<(u64, u32)>,
                     order: &mut Vec<u32>,
                     cap: usize,
                     has_value: &mut HashMap<u32, bool>,
                     untracked: &HashMap<u32, bool>,
                     evicted_keys: &mut HashMap<u32, bool>,
                     c: &mut Counts| {
        if cap == 0 {
            return;
        }
        if order.len() > cap {
            c.inc("lru_eviction_points");
        }
        while order.len() > cap {
            let n = order.remove(0);
            if !untracked.get(&n).copied().unwrap_or(false) {
                if has_value.get(&n).copied().unwrap_or(false) {
                    c.inc("lru_evicted");
                }
                has_value.insert(n, false);
                evicted_keys.insert(n, true);
                evs.push((clk, n));
            } else {
                c.inc("lru_untracked_exempt");
            }
        }
    };
    for (clk, _th, r) in log {
        match r {
            Rec::Call(_, Req::Node(n)) if is_lru(*n as u32) => pending_top = Some(*n as u32),
            Rec::Ret(_, out) => {
                if let (Some(n), Outcome::Val(_)) = (pending_top.take(), out) {
                    record_use(&mut order, cap, n);
                }
            }
            Rec::Read(ReadK::Call(FnK::Lru, n, _), _) => record_use(&mut order, cap, *n),
            Rec::Exit(a, _) if a.f == FnK::Lru => {
                has_value.insert(a.node, true);
                untracked.insert(a.node, unt_at_exit.get(clk).copied().unwrap_or(false));
                if evicted_keys.remove(&a.node).is_some() {
                    c.inc("lru_evicted_rerequested");
                }
            }
            Rec::SetLru(n) => {
                cap = *n as usize;
                c.inc("lru_capacity_changes");
                if cap == 0 {
                    order.clear();
                }
            }
            Rec::Evict => evict(*clk, &mut evs, &mut order, cap, &mut has_value, &untracked, &mut evicted_keys, &mut c),
            Rec::WriteDone(_, r2) => {
                if *r2 > rev {
                    rev = *r2;
                    evict(*clk, &mut evs, &mut order, cap, &mut has_value, &untracked, &mut evicted_keys, &mut c);
                }
            }
            Rec::LiveSample(n, cnt) => {
                c.inc("lru_samples");
                let model = has_value.get(n).copied().unwrap_or(false) as i64;
                if *cnt != model {
                    viol.push(format!(
                        "after the write at clock {clk} (rev {rev}, capacity {cap}) lru node n{n} has {cnt} live result value(s), the LRU model says {model}; recency order (least recent first) {order:?}"
                    ));
                    return (viol, c, evs);
                }
            }
            _ => {}
        }
    }
    (viol, c, evs)
}
