//! C05: exact LRU model vs live-value registry.
use crate::log::Outcome;
use crate::prog::*;
use crate::single::Runner;
use crate::util::Counts;

pub struct LruModel {
    pub counts: Counts,
}

impl LruModel {
    pub fn new(_prog: &Prog, _cap: usize) -> Self {
        LruModel { counts: Counts::default() }
    }
    pub fn on_request(&mut self, _r: &Runner, _prog: &Prog, _req: &Req, _got: &Outcome) {}
    pub fn on_write(&mut self, _r: &Runner, _w: &Step) -> Option<String> {
        None
    }
}
