//! Campaigns: per-property workloads, monitors and the command-line interface.

use std::collections::BTreeSet;
use std::time::Instant;

use crate::log::*;
use crate::mon;
use crate::prog::*;
use crate::refint::{self, Expect};
use crate::single::*;
use crate::util::*;

pub struct CaseReport {
    pub violations: Vec<String>,
    pub inconclusive: Vec<String>,
    pub nontrivial: bool,
    pub sig: u64,
    pub counts: Counts,
    pub sample: String,
    /// extra replay info (e.g. schedule)
    pub replay_extra: String,
    /// executions beyond the first that this case stands for (schedules / runs)
    pub extra_evals: u64,
    /// distinct non-trivial interleavings observed (concurrent engines)
    pub ilvs: Vec<u64>,
    /// the process cannot continue after this case (threads stuck)
    pub fatal: bool,
}

impl CaseReport {
    pub fn new() -> Self {
        CaseReport {
            violations: vec![],
            inconclusive: vec![],
            nontrivial: false,
            sig: 0,
            counts: Counts::default(),
            sample: String::new(),
            replay_extra: String::new(),
            extra_evals: 0,
            ilvs: Vec::new(),
            fatal: false,
        }
    }
}

pub struct Opts {
    pub prop: String,
    pub tier: String,
    pub seed: u64,
    pub shard: u64,
    pub nshards: u64,
    pub cases: u64,
    pub out: String,
    pub replay: Option<u64>,
    pub verbose: bool,
    pub secs: u64,
    pub sub: String,
    pub replay_index: u64,
    /// C23: keep every reference returned by a tracked function and re-read it before the next write
    pub retain: bool,
}

fn parse(args: &[String]) -> Opts {
    let mut o = Opts {
        prop: "C01".into(),
        tier: "quick".into(),
        seed: 1,
        shard: 0,
        nshards: 1,
        cases: 100,
        out: "/verif/out".into(),
        replay: None,
        verbose: false,
        secs: 0,
        sub: String::new(),
        replay_index: 0,
        retain: false,
    };
    let mut i = 0;
    while i < args.len() {
        let a = args[i].as_str();
        let mut val = || {
            i += 1;
            args.get(i).cloned().unwrap_or_default()
        };
        match a {
            "--prop" => o.prop = val(),
            "--tier" => o.tier = val(),
            "--seed" => o.seed = val().parse().unwrap_or(1),
            "--shard" => {
                let v = val();
                let mut it = v.split('/');
                o.shard = it.next().unwrap_or("0").parse().unwrap_or(0);
                o.nshards = it.next().unwrap_or("1").parse().unwrap_or(1);
            }
            "--cases" => o.cases = val().parse().unwrap_or(100),
            "--secs" => o.secs = val().parse().unwrap_or(0),
            "--out" => o.out = val(),
            "--sub" => o.sub = val(),
            "--replay" => o.replay = val().parse().ok(),
            "--replay-index" => o.replay_index = val().parse().unwrap_or(0),
            "-v" => o.verbose = true,
            _ => {}
        }
        i += 1;
    }
    o
}

pub fn main(args: &[String]) -> i32 {
    if args.is_empty() {
        eprintln!("usage: svh run --prop Cxx --tier quick|thorough --seed S --shard i/n --cases N --out DIR [--replay CASESEED]");
        return 2;
    }
    let o = parse(&args[1..]);
    match args[0].as_str() {
        "selftest" => {
            println!("svh-selftest-ok");
            0
        }
        "run" => run(&o),
        _ => 2,
    }
}

fn run_case(o: &Opts, case_seed: u64, case_index: u64) -> CaseReport {
    if o.sub.starts_with("origin") {
        return crate::camp_origin::origin_case(o, case_seed, case_index);
    }
    if o.sub.starts_with("sched") || o.sub.starts_with("os") {
        return crate::camp_conc::conc_case(o, case_seed);
    }
    #[cfg(feature = "persist")]
    if o.sub.starts_with("persist") {
        return crate::pworld::persist_case(o, case_seed);
    }
    if o.sub.starts_with("mem") {
        // C23: histories of several families with reference retention, meant to run natively and
        // under Miri / AddressSanitizer / valgrind
        let fams = ["C01", "C05", "C06", "C07", "C12", "C12", "C13", "C10"];
        let fam = fams[(case_seed % fams.len() as u64) as usize];
        let o2 = Opts {
            prop: fam.to_string(),
            tier: o.tier.clone(),
            seed: o.seed,
            shard: o.shard,
            nshards: o.nshards,
            cases: o.cases,
            out: o.out.clone(),
            replay: o.replay,
            verbose: o.verbose,
            secs: o.secs,
            sub: o.sub.clone(),
            replay_index: o.replay_index,
            retain: true,
        };
        let mut rep = match fam {
            "C12" | "C13" => crate::camp_single::cyclic_case(&o2, case_seed),
            _ => crate::camp_single::acyclic_case(&o2, case_seed),
        };
        // only memory clauses are judged here: value mismatches belong to the other properties
        let keep: Vec<String> = rep
            .violations
            .iter()
            .filter(|m| m.contains("a reference returned earlier"))
            .cloned()
            .collect();
        rep.counts.add("value_mismatches_not_judged_here", (rep.violations.len() - keep.len()) as u64);
        rep.violations = keep;
        rep.inconclusive.clear();
        rep.nontrivial = rep.counts.get("retained_refs_checked") > 0;
        rep.counts.inc(&format!("family:{fam}"));
        crate::sink::clear();
        return rep;
    }
    if o.sub.starts_with("fault") {
        let mut rep = crate::camp_fault::fault_case(o, case_seed);
        if o.prop == "C23" {
            // only memory clauses are judged here (by the sanitizer the run executes under);
            // recovery after the injected panic belongs to C22
            rep.counts.add("recovery_mismatches_not_judged_here", rep.violations.len() as u64);
            rep.violations.clear();
            rep.inconclusive.clear();
        }
        return rep;
    }
    match o.prop.as_str() {
        "C01" | "C02" | "C04" | "C05" | "C06" | "C07" | "C08" | "C09" | "C10" | "C11" | "C03" => {
            crate::camp_single::acyclic_case(o, case_seed)
        }
        "C12" | "C13" | "C14" | "C15" => crate::camp_single::cyclic_case(o, case_seed),
        p => {
            let mut r = CaseReport::new();
            r.inconclusive.push(format!("unknown property {p}"));
            r
        }
    }
}

fn run(o: &Opts) -> i32 {
    crate::prog::PEEK_NZ.store(crate::prog::peek_nz_env(), std::sync::atomic::Ordering::Relaxed);
    let t0 = Instant::now();
    let mut evaluations = 0u64;
    let mut nontrivial = 0u64;
    let mut sigs: BTreeSet<u64> = BTreeSet::new();
    let mut counts = Counts::default();
    let mut samples: Vec<String> = Vec::new();
    let mut violations: Vec<String> = Vec::new();
    let mut inconclusive: Vec<String> = Vec::new();
    let mut kept_per_class: std::collections::BTreeMap<String, u32> = Default::default();
    let seeds: Vec<(u64, u64)> = match o.replay {
        Some(cs) => vec![(cs, o.replay_index)],
        None => (0..o.cases)
            .map(|k| (mix(o.seed, o.shard + k * o.nshards), o.shard + k * o.nshards))
            .collect(),
    };
    for (cs, case_index) in seeds {
        if o.secs > 0 && t0.elapsed().as_secs() >= o.secs && evaluations > 0 {
            break;
        }
        let rep = run_case(o, cs, case_index);
        evaluations += 1 + rep.extra_evals;
        counts.merge(&rep.counts);
        if rep.nontrivial {
            nontrivial += 1;
            if rep.ilvs.is_empty() {
                sigs.insert(rep.sig);
            } else {
                sigs.extend(rep.ilvs.iter().map(|i| i ^ rep.sig));
            }
        }
        let fatal = rep.fatal;
        if samples.len() < 2 && rep.nontrivial && !rep.sample.is_empty() {
            samples.push(rep.sample.clone());
        }
        for i in &rep.inconclusive {
            if inconclusive.len() < 5 {
                inconclusive.push(format!("case {cs}: {i}"));
            }
            counts.inc("inconclusive_cases");
        }
        if !rep.violations.is_empty() {
            counts.inc("violating_cases");
            let sigclass = rep.violations[0]
                .split("[sig:")
                .nth(1)
                .and_then(|x| x.split(']').next())
                .unwrap_or("unclassified")
                .to_string();
            counts.inc(&format!("violations:{sigclass}"));
            let kept = kept_per_class.entry(sigclass.clone()).or_insert(0u32);
            let cap = if sigclass == "unclassified" { 10 } else { 2 };
            if *kept < cap {
                *kept += 1;
                let dir = format!("{}/{}", o.out, o.prop);
                let _ = std::fs::create_dir_all(&dir);
                let path = format!("{dir}/{}-{}-{}.json", o.tier, o.seed, cs);
                let body = JObj::new()
                    .s("property", &o.prop)
                    .s("tier", &o.tier)
                    .n("seed", o.seed)
                    .s("case_seed", &cs.to_string())
                    .s("case_index", &case_index.to_string())
                    .s("sub", &o.sub)
                    .strs("messages", &rep.violations)
                    .s("case", &rep.sample)
                    .s("extra", &rep.replay_extra)
                    .build();
                let _ = std::fs::write(&path, body);
                violations.push(
                    JObj::new()
                        .s("msg", &rep.violations[0])
                        .s("case_seed", &cs.to_string())
                        .s("replay", &path)
                        .build(),
                );
            }
            if o.verbose || o.replay.is_some() {
                eprintln!("VIOLATING case {cs}: {:?}\n  {}", rep.violations, rep.sample);
            }
        } else if o.replay.is_some() {
            eprintln!(
                "case {cs} clean; nontrivial={} counts={}\n  {}",
                rep.nontrivial,
                rep.counts.json(),
                rep.sample
            );
        }
        if fatal {
            break;
        }
    }
    let sigs_s: Vec<String> = sigs.iter().map(|s| format!("\"{s}\"")).collect();
    let line = JObj::new()
        .s("prop", &o.prop)
        .s("sub", &o.sub)
        .n("evaluations", evaluations)
        .n("nontrivial", nontrivial)
        .arr("sigs", &sigs_s)
        .raw("counts", counts.json())
        .strs("samples", &samples)
        .arr("violations", &violations)
        .strs("inconclusive", &inconclusive)
        .raw("wall_s", format!("{:.3}", t0.elapsed().as_secs_f64()))
        .build();
    println!("{line}");
    use std::io::Write;
    let _ = std::io::stdout().flush();
    let code = if !violations.is_empty() { 1 } else { 0 };
    // worker threads of a stuck case may still be blocked: leave without joining them
    std::process::exit(code)
}

/// Compare a request's outcome with the reference; returns a violation message on mismatch.
pub fn check_value(runner: &Runner, req: &Req, got: &Outcome, exp: &Expect) -> Option<String> {
    if matches!(req, Req::Entries) {
        return None;
    }
    if outcome_matches(exp, got) {
        return None;
    }
    Some(format!(
        "request {req:?} at rev {} returned {got:?}, reference says {exp:?} (inputs {:?} unt {:?})",
        runner.world.rev(),
        runner.inp.cells,
        runner.inp.unt
    ))
}

pub fn _keep(_: &[Stamped]) {
    let _ = mon::basic_stats;
    let _ = refint::lfp_kleene;
}
