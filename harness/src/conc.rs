//! Concurrent engine shared by E-sched (shuttle schedule fuzzing) and E-os (std threads with
//! delay injection at salsa's failpoints). One *iteration* builds a fresh database, replays a
//! single-threaded pre-history, runs the parallel phase and hands the merged event log to the
//! monitors. Under shuttle an iteration is one explored schedule.

use std::sync::atomic::Ordering;
use std::sync::{Arc, Mutex as StdMutex};

use crate::log::*;
use crate::prog::*;
use crate::refint::{self, Expect, Inputs};
use crate::single::*;
use crate::sync;
use crate::util::*;
use crate::world::*;

#[derive(Clone, Debug, PartialEq, Eq, Hash)]
pub enum TOp {
    Req(Req),
    /// fire the cancellation token of thread `usize`
    Cancel(usize),
    Yield,
    /// writer only
    Write(Step),
    /// create `n` inputs / interned values directly on the handle (C24)
    Create(u8, u16),
    /// convert the thread's handle into a `StorageHandle` and back (C24, Readers mode only)
    Rehandle,
}

#[derive(Clone, Copy, Debug, PartialEq, Eq, Hash)]
pub enum Mode {
    /// every thread owns one clone for the whole phase, nobody writes
    Readers,
    /// thread 0 is the writer (owns the master handle); the others take clones from the master,
    /// run requests and give the clone back when done or cancelled
    WriterReaders,
}

#[derive(Clone, Debug)]
pub struct ConcCase {
    pub prog: Prog,
    pub pre: Vec<Step>,
    pub threads: Vec<Vec<TOp>>,
    pub mode: Mode,
    /// after the parallel phase request every node again on the main handle
    pub post_all: bool,
    /// C22: arm a panic at this user-code step of the parallel phase (Some(0) = count only)
    pub fault_at: Option<u64>,
}

impl ConcCase {
    pub fn describe(&self) -> String {
        let th: Vec<String> = self
            .threads
            .iter()
            .enumerate()
            .map(|(i, t)| {
                format!(
                    "T{}[{}]",
                    i + 1,
                    t.iter().map(|o| format!("{o:?}")).collect::<Vec<_>>().join(",")
                )
            })
            .collect();
        format!(
            "PROG {} PRE {} MODE {:?} THREADS {}",
            self.prog,
            fmt_history(&self.pre),
            self.mode,
            th.join(" ")
        )
    }
}

/// What one thread observed: (clock of call, op index, revision the handle was at, outcome).
#[derive(Clone, Debug)]
pub struct Obs {
    pub th: usize,
    pub op: usize,
    pub rev: u64,
    pub req: Req,
    pub out: Outcome,
}

pub struct IterResult {
    pub log: Vec<Stamped>,
    pub obs: Vec<Obs>,
    /// inputs per revision (model), index = revision number
    pub inputs_at: Vec<(u64, Inputs)>,
    pub final_inp: Inputs,
    pub anomalies: Vec<String>,
    pub post: Vec<(Req, Outcome)>,
    pub write_violations: Vec<String>,
    /// handles held by validated memos that no longer read the value they were interned for
    pub held_violations: Vec<String>,
    pub held_read_back: u64,
    pub ctx: Arc<Ctx>,
    /// E-os only: the watchdog found the phase stuck
    pub stuck: bool,
    pub created: Vec<(u8, u32, u32, u16, u16)>,
    /// user-code steps counted during the parallel phase and whether the armed fault fired
    pub fault_steps: u64,
    pub fault_fired: bool,
    pub fault_site: u64,
}

pub fn node_req(prog: &Prog, n: usize) -> Req {
    match prog.nodes[n].kind {
        Kind::Multi => Req::Multi(n, 0),
        _ => Req::Node(n),
    }
}

struct Shared {
    obs: StdMutex<Vec<Obs>>,
    created: StdMutex<Vec<(u8, u32, u32, u16, u16)>>,
    inputs_at: StdMutex<Vec<(u64, Inputs)>>,
    write_violations: StdMutex<Vec<String>>,
}

/// Runs one iteration. Must be called from inside the scheduler's context (shuttle) or from a
/// plain thread (E-os).
pub fn run_iteration(case: &ConcCase, watchdog_secs: u64) -> IterResult {
    let relaxed = crate::sink::RELAXED_CLOCK.load(Ordering::Relaxed);
    let mut runner = Runner::new(&case.prog, !relaxed);
    let read_back = crate::sink::READ_BACK.load(Ordering::Relaxed);
    runner.ctx.keep_handles.store(read_back, Ordering::Relaxed);
    let nn = case.prog.nodes.len() as u64;
    runner
        .ctx
        .step_bound
        .store(4 * 200 * (nn + 2).pow(2) * 4, Ordering::Relaxed);
    for s in &case.pre {
        match s {
            Step::Req(q) => {
                runner.request(q);
            }
            w => {
                runner.write(w);
            }
        }
    }
    let shared = Arc::new(Shared {
        obs: StdMutex::new(Vec::new()),
        created: StdMutex::new(Vec::new()),
        inputs_at: StdMutex::new(vec![(runner.world.rev(), runner.inp.clone())]),
        write_violations: StdMutex::new(Vec::new()),
    });
    runner.ctx.log.push(Rec::Note("parallel-begin"));
    crate::sink::EV_DELAY.store(true, Ordering::Relaxed);
    let ctx = runner.ctx.clone();
    if let Some(at) = case.fault_at {
        ctx.fault.arm((1 << 15) - 1, at);
    }
    let back = match case.mode {
        Mode::Readers => run_readers(case, runner, &shared, watchdog_secs),
        Mode::WriterReaders => run_writer_readers(case, runner, &shared, watchdog_secs),
    };
    crate::sink::EV_DELAY.store(false, Ordering::Relaxed);
    ctx.log.push(Rec::Note("parallel-end"));
    let fault_site = ctx.fault.fired_site.load(Ordering::Relaxed);
    let fault_fired = ctx.fault.fired_site.load(Ordering::Relaxed) != u64::MAX && case.fault_at.unwrap_or(0) != 0;
    let fault_steps = if case.fault_at.is_some() { ctx.fault.disarm() } else { 0 };
    let mut anomalies = Vec::new();
    let mut post = Vec::new();
    let mut wv = shared.write_violations.lock().unwrap().clone();
    let stuck = back.is_none();
    let mut final_inp = Inputs {
        cells: vec![],
        unt: vec![],
    };
    let mut held_violations = Vec::new();
    let mut held_read_back = 0u64;
    if let Some(mut runner) = back {
        anomalies = runner.quiescent_anomalies();
        if read_back {
            // every request that returned a value in the final revision validated the requested
            // memo: the interned handles it and the memos below it hold must still be good
            let recs = ctx.log.since(0);
            let mut held = crate::camp_single::HeldHandles::default();
            held.update_recs(&recs);
            let now = runner.world.rev();
            let mut counts = Counts::default();
            let mut seen = std::collections::BTreeSet::new();
            for o in shared.obs.lock().unwrap().iter() {
                if o.rev != now || !matches!(o.out, Outcome::Val(_)) || !seen.insert(format!("{:?}", o.req)) {
                    continue;
                }
                if let Some(m) = held.read_back(&runner, &case.prog, &o.req, &mut counts) {
                    held_violations.push(format!("thread T{}: {m}", o.th));
                    break;
                }
            }
            held_read_back = counts.get("held_handles_read_back");
        }
        if case.post_all {
            for n in 0..case.prog.nodes.len() {
                let q = node_req(&case.prog, n);
                let o = runner.request(&q);
                post.push((q, o));
            }
        }
        wv.extend(runner.violations.drain(..));
        final_inp = runner.inp.clone();
    }
    let log = ctx.log.take();
    let res = IterResult {
        log,
        obs: shared.obs.lock().unwrap().clone(),
        inputs_at: shared.inputs_at.lock().unwrap().clone(),
        final_inp,
        anomalies,
        post,
        write_violations: wv,
        held_violations,
        held_read_back,
        ctx: ctx.clone(),
        stuck,
        created: shared.created.lock().unwrap().clone(),
        fault_steps,
        fault_fired,
        fault_site,
    };
    if !stuck {
        crate::sink::clear();
    }
    res
}

fn do_op(
    db: &World,
    h: usize,
    i: usize,
    op: &TOp,
    shared: &Shared,
    tokens: &[salsa::CancellationToken],
) -> Option<Outcome> {
    let ctx = db.ctx().clone();
    match op {
        TOp::Req(q) => {
            let rev = db.rev();
            ctx.log.push(Rec::Call(h as u32, q.clone()));
            let o = do_request(db, q);
            ctx.log.push(Rec::Ret(h as u32, o.clone()));
            shared.obs.lock().unwrap().push(Obs {
                th: h,
                op: i,
                rev,
                req: q.clone(),
                out: o.clone(),
            });
            Some(o)
        }
        TOp::Cancel(t) => {
            ctx.log.push(Rec::Cancel(*t as u32));
            if let Some(tok) = tokens.get(*t) {
                tok.cancel();
            }
            ctx.log.push(Rec::CancelDone(*t as u32));
            None
        }
        TOp::Yield => {
            sync::yield_now();
            None
        }
        TOp::Create(kind, v) => {
            let r = std::panic::catch_unwind(std::panic::AssertUnwindSafe(|| match kind {
                0 => {
                    let c = Cell::new(db, *v, v.wrapping_add(1));
                    let id = salsa::plumbing::AsId::as_id(&c);
                    (id.index(), id.generation(), c.a(db), c.b(db))
                }
                1 => {
                    let (id, back) = intern_sym(db, Sym::R, *v);
                    ctx.log.push(Rec::Interned(Sym::R as u8, *v, id.index(), id.generation()));
                    (id.index(), id.generation(), back, 0)
                }
                _ => {
                    let (id, back) = intern_sym(db, Sym::Imm, *v);
                    ctx.log.push(Rec::Interned(Sym::Imm as u8, *v, id.index(), id.generation()));
                    (id.index(), id.generation(), back, 0)
                }
            }));
            if let Ok((idx, g, a, b)) = r {
                shared.created.lock().unwrap().push((*kind, idx, g, a, b));
                // remember what was created with which values
                ctx.log.push(Rec::Made(idx, g, [*kind as u16, *v, a, b], 9999, h as u32));
            }
            None
        }
        TOp::Write(_) | TOp::Rehandle => None,
    }
}

fn join_all<T>(handles: Vec<sync::JoinHandle<T>>, ctx: &Ctx, watchdog_secs: u64) -> bool {
    #[cfg(not(feature = "shuttle"))]
    {
        if watchdog_secs > 0 {
            let mut last = ctx.log.now();
            let mut since = std::time::Instant::now();
            loop {
                if handles.iter().all(|h| h.is_finished()) {
                    break;
                }
                std::thread::sleep(std::time::Duration::from_millis(1));
                let now = ctx.log.now();
                if now != last {
                    last = now;
                    since = std::time::Instant::now();
                } else if since.elapsed().as_secs() >= watchdog_secs {
                    return true;
                }
            }
        }
    }
    let _ = (ctx, watchdog_secs);
    for h in handles {
        let _ = h.join();
    }
    false
}

fn run_readers(case: &ConcCase, runner: Runner, shared: &Arc<Shared>, watchdog: u64) -> Option<Runner> {
    let clones: Vec<World> = case.threads.iter().map(|_| runner.world.clone()).collect();
    let tokens: Arc<Vec<salsa::CancellationToken>> = Arc::new(
        clones
            .iter()
            .map(|c| salsa::Database::cancellation_token(c))
            .collect(),
    );
    let mut handles = Vec::new();
    for (t, db) in clones.into_iter().enumerate() {
        let ops = case.threads[t].clone();
        let shared = shared.clone();
        let tokens = tokens.clone();
        handles.push(sync::spawn(move || {
            let h = t + 1;
            let mut db = db;
            db.ctx().log.push(Rec::CloneHandle(h as u32));
            for (i, op) in ops.iter().enumerate() {
                if matches!(op, TOp::Rehandle) {
                    db.ctx().log.push(Rec::Note("rehandle"));
                    db = db.rehandle();
                    continue;
                }
                do_op(&db, h, i, op, &shared, &tokens);
            }
            db.ctx().log.push(Rec::BeforeDrop(h as u32));
            let ctx = db.ctx().clone();
            drop(db);
            ctx.log.push(Rec::AfterDrop(h as u32));
        }));
    }
    let ctx = runner.ctx.clone();
    if join_all(handles, &ctx, watchdog) {
        std::mem::forget(runner);
        None
    } else {
        Some(runner)
    }
}

/// Thread 0 of the case is the writer; it owns the master handle (inside a mutex so readers can
/// take clones between writes). Readers repeatedly take a clone, run their ops on it and give
/// it back when they are done or have been cancelled.
fn run_writer_readers(case: &ConcCase, runner: Runner, shared: &Arc<Shared>, watchdog: u64) -> Option<Runner> {
    let ctx = runner.ctx.clone();
    let master = Arc::new(sync::Mutex::new(Some(runner)));
    let mut handles = Vec::new();
    for t in 0..case.threads.len() {
        let ops = case.threads[t].clone();
        let shared = shared.clone();
        let master = master.clone();
        let ctx = ctx.clone();
        handles.push(sync::spawn(move || {
            let h = t + 1;
            if t == 0 {
                for op in &ops {
                    match op {
                        TOp::Write(step) => {
                            let mut g = master.lock().unwrap();
                            let m = g.as_mut().unwrap();
                            m.write(step);
                            let rev = m.world.rev();
                            shared.inputs_at.lock().unwrap().push((rev, m.inp.clone()));
                            let mut wv = shared.write_violations.lock().unwrap();
                            wv.extend(m.violations.drain(..));
                        }
                        TOp::Yield => sync::yield_now(),
                        _ => {}
                    }
                }
                return;
            }
            let mut i = 0;
            let mut rounds = 0;
            while i < ops.len() && rounds < ops.len() * 3 + 8 {
                rounds += 1;
                let db = {
                    let g = master.lock().unwrap();
                    let w = g.as_ref().unwrap().world.clone();
                    ctx.log.push(Rec::CloneHandle(h as u32));
                    w
                };
                while i < ops.len() {
                    let o = do_op(&db, h, i, &ops[i], &shared, &[]);
                    i += 1;
                    if let Some(Outcome::Panic(
                        refint::PanicClass::PendingWrite | refint::PanicClass::Propagated,
                        _,
                    )) = o
                    {
                        // retry this op on a fresh clone
                        i -= 1;
                        break;
                    }
                }
                ctx.log.push(Rec::BeforeDrop(h as u32));
                drop(db);
                ctx.log.push(Rec::AfterDrop(h as u32));
                sync::yield_now();
            }
        }));
    }
    if join_all(handles, &ctx, watchdog) {
        None
    } else {
        let r = master.lock().unwrap().take();
        r
    }
}

// --------------------------------------------------------------------------------------------
// expectation helpers

pub fn inputs_for_rev(inputs_at: &[(u64, Inputs)], rev: u64) -> Option<&Inputs> {
    inputs_at.iter().rev().find(|(r, _)| *r <= rev).map(|(_, i)| i)
}

pub fn expect_for(prog: &Prog, inp: &Inputs, req: &Req) -> Expect {
    refint::expect_req(prog, inp, req)
}

pub fn hash_case(s: &str) -> u64 {
    hash_str(s)
}
