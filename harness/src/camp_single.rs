//! Single-threaded campaigns (E-single).

use crate::camp::{CaseReport, Opts, check_value};
use crate::log::*;
use crate::mon;
use crate::prog::*;
use crate::refint::{self, Expect, PanicClass};
use crate::single::*;
use crate::util::*;

pub fn gen_cfg(prop: &str, rng: &mut Rng) -> GenCfg {
    let mut c = GenCfg::base();
    match prop {
        "C01" => {
            c.kinds = vec![
                (Kind::Plain, 6),
                (Kind::NoEq, 2),
                (Kind::Multi, 2),
                (Kind::Lru, 1),
            ];
            c.untracked = true;
            c.makers = true;
            c.intern = vec![Sym::K1, Sym::K2, Sym::R, Sym::Imm];
            c.on_sym = true;
            c.max_nodes = 10;
            c.lru_makers = true;
            c.durabilities = rng.chance(1, 3);
            c.dur_profile = c.durabilities;
        }
        "C02" => {
            c.kinds = vec![(Kind::Plain, 6), (Kind::NoEq, 1), (Kind::Multi, 1)];
            c.durabilities = true;
            c.never = true;
            c.dur_profile = true;
            c.makers = rng.chance(1, 2);
            c.accumulate = rng.chance(1, 3);
            c.accum_reqs = c.accumulate;
        }
        "C03" => {
            c.kinds = vec![
                (Kind::Plain, 6),
                (Kind::NoEq, 1),
                (Kind::Multi, 1),
                (Kind::Lru, 1),
            ];
            c.durabilities = rng.chance(1, 2);
            c.makers = rng.chance(1, 2);
            c.untracked = rng.chance(1, 3);
            c.intern = if rng.chance(1, 3) {
                vec![Sym::K1, Sym::K2]
            } else {
                vec![]
            };
            c.lru_steps = rng.chance(1, 3);
            c.vmod = 3;
        }
        "C04" => {
            c.kinds = vec![(Kind::Plain, 6), (Kind::Lru, 2), (Kind::NoEq, 1)];
            c.untracked = true;
            c.durabilities = true;
            // fields that start MEDIUM/HIGH: functions become untracked (and LOW) only later
            c.dur_profile = rng.chance(1, 2);
            c.lru_steps = rng.chance(1, 3);
            c.vmod = 3;
        }
        "C05" => {
            c.kinds = vec![(Kind::Lru, 6), (Kind::Plain, 3)];
            c.min_nodes = 6;
            c.max_nodes = 12;
            c.lru_steps = true;
            c.untracked = rng.chance(1, 3);
        }
        "C06" => {
            c.kinds = vec![(Kind::Plain, 6)];
            c.makers = true;
            c.entries_reqs = true;
            c.lru_makers = true;
            c.vmod = 3;
        }
        "C07" => {
            c.kinds = vec![(Kind::Plain, 5), (Kind::Multi, 2)];
            c.makers = true;
            c.intern = vec![Sym::K1, Sym::K1, Sym::K2, Sym::K3];
            c.on_sym = true;
            c.intern_reqs = true;
            c.lru_makers = true;
            c.vmod = 5;
            c.hist_len = (30, 70);
        }
        // C08's single-handle histories use the C09 family (durabilities, collection across revisions)
        "C09" | "C08" => {
            c.kinds = vec![(Kind::Plain, 6)];
            c.intern = vec![Sym::K1, Sym::K2, Sym::K3, Sym::Imm];
            c.on_sym = true;
            c.intern_reqs = true;
            c.durabilities = true;
            c.vmod = 5;
            c.hist_len = (30, 80);
        }
        "C10" => {
            c.kinds = vec![(Kind::Plain, 6)];
            c.makers = true;
            c.specify = true;
            c.spec_panics = true;
            c.durabilities = rng.chance(1, 2);
            c.dur_profile = c.durabilities;
            c.vmod = 3;
        }
        "C11" => {
            c.kinds = vec![(Kind::Plain, 6), (Kind::NoEq, 1), (Kind::Multi, 1)];
            c.accumulate = true;
            c.accum_reqs = true;
            c.neutral_acc = true;
            c.durabilities = rng.chance(1, 2);
            c.never = rng.chance(1, 4);
            c.makers = rng.chance(1, 2);
            // creators that also specify store their edges in the wide layout
            c.specify = c.makers && rng.chance(2, 3);
            c.vmod = 3;
        }
        _ => {}
    }
    c
}

pub fn acyclic_case(o: &Opts, case_seed: u64) -> CaseReport {
    let mut rng = Rng::new(case_seed);
    let cfg = gen_cfg(&o.prop, &mut rng);
    let prog = gen_prog(&mut rng, &cfg);
    let mut hist = gen_history(&mut rng, &cfg, &prog);
    if o.prop == "C10" && rng.chance(2, 3) {
        // directed tail: two single-input writes, each followed by a request of every node, so that
        // "an input only the specified function's body reads changes and readers are re-verified,
        // then the creator stops specifying" (and its mirror images) occur regularly
        let all = |h: &mut Vec<Step>| {
            for n in 0..prog.nodes.len() {
                h.push(Step::Req(match prog.nodes[n].kind {
                    Kind::Multi => Req::Multi(n, 0),
                    _ => Req::Node(n),
                }));
            }
        };
        all(&mut hist);
        for _ in 0..rng.range(2, 4) {
            hist.push(Step::Set {
                cell: rng.below(prog.ncells),
                field: rng.below(2),
                val: rng.below(cfg.vmod as usize) as u16,
                dur: None,
            });
            all(&mut hist);
        }
    }
    run_history(o, &cfg, &prog, &hist, case_seed)
}

/// C08: the handles each function activation interned during its latest completed execution, and
/// the activations it called. A request that returns a value has validated (or executed) the
/// requested function in the current revision, so every handle its memo and the memos below it
/// hold must still denote the value it was interned for.
#[derive(Default)]
pub struct HeldHandles {
    clock: u64,
    by_act: std::collections::HashMap<ActK, (Vec<(u8, u16, u32, u32)>, Vec<ActK>)>,
}

impl HeldHandles {
    fn update(&mut self, log: &crate::log::Log) {
        let recs = log.since(self.clock);
        self.clock = log.now();
        self.update_recs(&recs);
    }

    /// Takes the executions of `recs` in order of completion (several threads may have logged).
    pub fn update_recs(&mut self, recs: &[Stamped]) {
        let mut execs = mon::executions(recs);
        execs.sort_by_key(|e| e.end);
        for e in execs {
            if e.value.is_none() {
                self.by_act.remove(&e.act);
                continue;
            }
            let mut hs = vec![];
            let mut callees = vec![];
            for (_, it) in &e.items {
                match it {
                    mon::Item::Interned(t, v, idx, g) => hs.push((*t, *v, *idx, *g)),
                    mon::Item::Read(ReadK::Call(f, n, a), _) => callees.push(ActK {
                        f: *f,
                        node: *n,
                        arg: *a,
                        key_idx: 0,
                        key_gen: 0,
                    }),
                    _ => {}
                }
            }
            self.by_act.insert(e.act, (hs, callees));
        }
    }

    pub fn read_back(&self, runner: &Runner, prog: &Prog, req: &Req, counts: &mut Counts) -> Option<String> {
        let (n, arg) = match req {
            Req::Node(n) => (*n, 0u16),
            Req::Multi(n, a) => (*n, *a),
            _ => return None,
        };
        let root = self
            .by_act
            .keys()
            .find(|a| a.node as usize == n && a.arg == arg && a.f == crate::world::fnk_of(prog.nodes[n].kind))
            .copied()?;
        let mut seen = std::collections::BTreeSet::new();
        let mut todo = vec![root];
        while let Some(a) = todo.pop() {
            if !seen.insert(a) {
                continue;
            }
            let Some((hs, callees)) = self.by_act.get(&a) else { continue };
            for (t, v, idx, g) in hs {
                let Some(id) = runner.ctx.handles.lock().unwrap().get(&(*t, *idx, *g)).copied() else { continue };
                let sym = Sym::ALL[*t as usize];
                let r = crate::sink::with_detached(|| {
                    std::panic::catch_unwind(std::panic::AssertUnwindSafe(|| {
                        crate::world::read_sym(&runner.world, sym, id)
                    }))
                });
                counts.inc("held_handles_read_back");
                match r {
                    Ok(back) if back == *v => {}
                    Ok(back) => {
                        return Some(format!(
                            "handle ({idx},{g}) of {sym:?} interned for value {v} by n{} (memo valid in this revision, reached from {req:?}) reads {back}",
                            a.node
                        ));
                    }
                    Err(p) => {
                        return Some(format!(
                            "reading handle ({idx},{g}) of {sym:?} interned for value {v} by n{} (memo valid in this revision, reached from {req:?}) panicked: {}",
                            a.node,
                            crate::single::payload_msg(&*p)
                        ));
                    }
                }
            }
            todo.extend(callees.iter().copied());
        }
        None
    }
}

pub fn run_history(o: &Opts, _cfg: &GenCfg, prog: &Prog, hist: &[Step], case_seed: u64) -> CaseReport {
    let mut rep = CaseReport::new();
    rep.sample = format!("PROG {prog} HISTORY {}", fmt_history(hist));
    rep.sig = hash_str(&rep.sample);
    // a third of the C06/C07 cases run with colliding identity hashes
    let collide = matches!(o.prop.as_str(), "C06" | "C07") && case_seed % 3 == 0 && !o.retain;
    crate::world::COLLIDE.store(collide, std::sync::atomic::Ordering::Relaxed);
    let mut runner = Runner::new(prog, true);
    runner
        .ctx
        .retain_refs
        .store(o.retain, std::sync::atomic::Ordering::Relaxed);
    runner
        .ctx
        .step_bound
        .store(4 * 200 * (prog.nodes.len() as u64 + 2).pow(2), std::sync::atomic::Ordering::Relaxed);
    let do_fresh = case_seed % 8 == 0 && !o.retain;
    // C07/C09 churn the same slots: the read-back of held handles applies to them as well
    let c08 = matches!(o.prop.as_str(), "C08" | "C07" | "C09");
    runner
        .ctx
        .keep_handles
        .store(c08, std::sync::atomic::Ordering::Relaxed);
    let mut held = HeldHandles::default();
    for (si, step) in hist.iter().enumerate() {
        match step {
            Step::Req(req) => {
                let got = runner.request(req);
                if c08 {
                    held.update(&runner.ctx.log);
                    if let (Req::Node(_) | Req::Multi(..), Outcome::Val(_)) = (req, &got) {
                        if let Some(m) = held.read_back(&runner, prog, req, &mut rep.counts) {
                            rep.violations.push(format!("step {si}: {m}"));
                            break;
                        }
                    }
                }
                let (exp, calls) = match req {
                    Req::Entries => (Expect::Ents(vec![]), vec![]),
                    _ => refint::expect_req_calls(prog, &runner.inp, req),
                };
                if o.prop == "C04" || o.prop == "C03" {
                    runner.ctx.log.push(Rec::RefCalls(calls));
                }
                if let Some(m) = check_value(&runner, req, &got, &exp) {
                    // attribute: fresh salsa vs reference
                    let fresh = fresh_outcome(prog, &runner.inp, req);
                    if outcome_matches(&exp, &fresh) {
                        rep.violations.push(format!("step {si}: {m}"));
                    } else {
                        rep.inconclusive.push(format!(
                            "step {si}: harness self-check: reference {exp:?} vs fresh db {fresh:?} vs incremental {got:?} for {req:?}"
                        ));
                    }
                    break;
                } else if do_fresh && si % 5 == 0 {
                    let fresh = fresh_outcome(prog, &runner.inp, req);
                    if !matches!(req, Req::Entries) && !outcome_matches(&exp, &fresh) {
                        rep.inconclusive.push(format!(
                            "step {si}: harness self-check: reference {exp:?} vs fresh db {fresh:?} for {req:?}"
                        ));
                        break;
                    }
                    rep.counts.inc("fresh_crosschecks");
                }
                if matches!(got, Outcome::Panic(PanicClass::Other, _))
                    || matches!(&got, Outcome::Panic(_, m) if m.contains("svh-step-bound"))
                {
                    rep.violations
                        .push(format!("step {si}: unexpected panic for {req:?}: {got:?}"));
                    break;
                }
            }
            w => {
                runner.write(w);
                if !runner.violations.is_empty() {
                    break;
                }
                if o.prop == "C05" && !matches!(w, Step::SetLru(_)) {
                    // boundary observation: which lru results still exist right after the write
                    for (n, node) in prog.nodes.iter().enumerate() {
                        if node.kind == Kind::Lru {
                            let tag = crate::world::tag_of(ActK {
                                f: FnK::Lru,
                                node: n as u32,
                                arg: 0,
                                key_idx: 0,
                                key_gen: 0,
                            });
                            let cnt = runner.ctx.live[tag as usize]
                                .load(std::sync::atomic::Ordering::Relaxed);
                            runner.ctx.log.push(Rec::LiveSample(n as u32, cnt));
                        }
                    }
                }
                let an = runner.quiescent_anomalies();
                if !an.is_empty() {
                    rep.counts.inc("h3_anomalies");
                    // follow-up: every node must still be computable and correct
                    for n in 0..prog.nodes.len() {
                        let req = match prog.nodes[n].kind {
                            Kind::Multi => Req::Multi(n, 0),
                            _ => Req::Node(n),
                        };
                        let got = runner.request(&req);
                        let exp = runner.expect(&req);
                        if let Some(m) = check_value(&runner, &req, &got, &exp) {
                            rep.violations.push(format!(
                                "step {si}: structural anomaly {an:?} confirmed by follow-up: {m}"
                            ));
                        }
                    }
                    if rep.violations.is_empty() {
                        rep.counts.inc("h3_anomalies_unconfirmed");
                    } else {
                        break;
                    }
                }
            }
        }
    }
    if o.retain {
        let n = runner.ctx.retained.lock().unwrap().len() as u64;
        rep.counts.add("retained_refs_checked", n + runner.retained_checked);
        rep.violations.extend(runner.ctx.check_retained());
    }
    rep.violations.extend(runner.violations.drain(..));
    let log = runner.take_log();
    dump_log(&log);
    let stats = mon::basic_stats(&log);
    rep.counts.merge(&stats);
    rep.counts.add("history_steps", hist.len() as u64);
    rep.counts.add("never_change_rejections", runner.rejections);

    // property-specific monitors over the log
    match o.prop.as_str() {
        "C03" => {
            let (v, c) = crate::mon_reuse::check(prog, &log, &runner);
            rep.violations.extend(v);
            rep.counts.merge(&c);
        }
        "C05" => {
            let (v, c) = crate::mon_lru::check(prog, &log);
            rep.violations.extend(v);
            rep.counts.merge(&c);
        }
        "C04" => {
            let (v, c) = crate::mon_misc::check_untracked(prog, &log);
            rep.violations.extend(v);
            rep.counts.merge(&c);
        }
        "C06" | "C07" if collide => {
            let (v, c) = crate::mon_misc::check_id_functional(&log);
            rep.violations.extend(v);
            rep.counts.merge(&c);
            rep.counts.inc("colliding_hash_cases");
        }
        "C06" | "C07" => {
            let (v, c) = crate::mon_misc::check_identity(prog, &log, &runner.ctx);
            rep.violations.extend(v);
            rep.counts.merge(&c);
        }
        "C09" => {
            let (v, c) = crate::mon_misc::check_retention(prog, &log, &runner.ctx);
            rep.violations.extend(v);
            rep.counts.merge(&c);
        }
        "C08" => {
            // only the identity clauses of the retention monitor: one handle per value and one
            // value per handle within a revision, identity kept while the slot is not reclaimed
            let (v, c) = crate::mon_misc::check_retention(prog, &log, &runner.ctx);
            rep.violations.extend(
                v.into_iter()
                    .filter(|m| m.contains("denotes value") || m.contains("changed identity") || m.contains("in one revision")),
            );
            rep.counts.merge(&c);
        }
        "C10" => {
            let (v, c) = crate::mon_misc::check_specify(prog, &log);
            rep.violations.extend(v);
            rep.counts.merge(&c);
        }
        _ => {}
    }

    if o.prop == "C11" {
        for (_, _, r) in &log {
            if let Rec::Ret(_, Outcome::List(l)) = r {
                if !l.is_empty() {
                    rep.counts.inc("accum_nonempty");
                }
            }
        }
    }
    // non-triviality rules
    let s = &rep.counts;
    rep.nontrivial = match o.prop.as_str() {
        "C01" => s.get("ev_validate") > 0 && s.get("reexec_after_write") > 0 && s.get("equal_reexec") > 0,
        "C02" => {
            s.get("ev_validate") > 0
                && s.get("reexec_after_write") > 0
                && hist.iter().any(|h| matches!(h, Step::Set { dur: Some(_), .. }))
        }
        "C03" => s.get("ev_validate") > 0 && s.get("justified") > 0 && s.get("equal_reexec") > 0,
        "C04" => s.get("untracked_reexec") > 0,
        "C05" => s.get("lru_eviction_points") > 0 && s.get("lru_evicted") > 0,
        "C06" => (s.get("identity_preserved") > 0 || s.get("colliding_identity_kept") > 0) && s.get("ev_did_discard") > 0,
        "C07" => s.get("ev_reuse_interned") > 0 || s.get("tracked_slot_reuse") > 0,
        "C09" => s.get("ev_reuse_interned") > 0 || s.get("interned_survivals") > 0,
        "C08" => s.get("interned_identity_kept") > 0 && s.get("ev_reuse_interned") > 0,
        "C10" => s.get("specified") > 0 && s.get("spec_served") > 0,
        "C11" => s.get("pushed") > 0 && s.get("ev_validate") > 0 && s.get("accum_nonempty") > 0,
        _ => true,
    };
    if o.prop == "C11" {
        // count non-empty accumulated results
    }
    rep
}

// ---------------------------------------------------------------- cyclic

pub fn cyc_cfg(prop: &str, rng: &mut Rng) -> GenCfg {
    let mut c = GenCfg::base();
    c.min_nodes = 2;
    c.max_nodes = 6;
    c.max_depth = 2;
    c.hist_len = (10, 40);
    let bits = if rng.chance(1, 2) { 2 } else { 3 };
    match prop {
        "C12" | "C18" => {
            c.cyclic = Some(CycCfg {
                peek: rng.chance(1, 2),
                kinds: if rng.chance(1, 2) {
                    vec![(Kind::Fix, 1)]
                } else {
                    vec![(Kind::Fix, 2), (Kind::FixJ, 2)]
                },
                nonmonotone: false,
                bits,
            });
        }
        "C13" => {
            c.cyclic = Some(CycCfg {
                peek: false,
                kinds: vec![(Kind::Fb, 1)],
                nonmonotone: false,
                bits,
            });
        }
        "C14" => {
            c.cyclic = Some(CycCfg {
                peek: false,
                kinds: if rng.chance(1, 2) {
                    vec![(Kind::Plain, 1)]
                } else {
                    vec![(Kind::Plain, 3), (Kind::Fix, 1)]
                },
                nonmonotone: false,
                bits,
            });
        }
        "C15" => {
            c.cyclic = Some(CycCfg {
                peek: false,
                kinds: vec![(Kind::Fix, 3), (Kind::FixJ, 1)],
                nonmonotone: true,
                bits: 12,
            });
            c.max_nodes = 4;
            c.hist_len = (6, 14);
        }
        _ => {}
    }
    c
}

/// Expected outcome for a node request in a cyclic program.
pub fn cyc_expect(prop: &str, prog: &Prog, inp: &refint::Inputs, n: usize) -> Option<Expect> {
    let all_fb = prog.nodes.iter().all(|x| x.kind == Kind::Fb);
    if all_fb {
        return Some(Expect::Val(refint::fallback_values(prog, inp)[n]));
    }
    let info = refint::cyc_info(prog, inp, n);
    if info.must_panic {
        return Some(Expect::Panic(PanicClass::Cycle));
    }
    let nonmono = prop == "C15";
    let lfp = refint::lfp_kleene(prog, inp, 400);
    if nonmono {
        // outcome is order dependent unless the system is monotone *now*: decide by
        // checking that both solvers agree and a fixpoint exists
        let wl = refint::lfp_worklist(prog, inp, 400);
        return match (lfp, wl) {
            (Some(a), Some(b)) if a == b && is_monotone_now(prog, inp) => Some(Expect::Val(a[n])),
            _ => None,
        };
    }
    let lfp = lfp?;
    let wl = refint::lfp_worklist(prog, inp, 400)?;
    if lfp != wl {
        return None;
    }
    if info.may_panic {
        Some(Expect::OneOf(vec![
            Expect::Panic(PanicClass::Cycle),
            Expect::Val(lfp[n]),
        ]))
    } else {
        Some(Expect::Val(lfp[n]))
    }
}

/// True if no non-monotone operator is reachable under the current inputs.
fn is_monotone_now(prog: &Prog, inp: &refint::Inputs) -> bool {
    monotone_now(prog, inp, None)
}

fn node_monotone_now(prog: &Prog, inp: &refint::Inputs, m: usize) -> bool {
    monotone_now(prog, inp, Some(m))
}

fn monotone_now(prog: &Prog, inp: &refint::Inputs, only: Option<usize>) -> bool {
    fn cond(e: &Expr, inp: &refint::Inputs) -> Option<u16> {
        Some(match e {
            Expr::Const(c) => *c,
            Expr::In(c, f) => inp.cells[*c][*f],
            Expr::Bin(op, a, b) => op.apply(cond(a, inp)?, cond(b, inp)?),
            _ => return None,
        })
    }
    fn mono(e: &Expr, inp: &refint::Inputs) -> bool {
        match e {
            Expr::Bin(Op::Xor | Op::AndNot | Op::Add(_) | Op::Eq, a, b) => {
                // fine if neither side depends on a call
                !has_call(a) && !has_call(b)
            }
            Expr::Bin(_, a, b) => mono(a, inp) && mono(b, inp),
            Expr::If(c, t, f) => match cond(c, inp) {
                Some(0) => mono(f, inp),
                Some(_) => mono(t, inp),
                None => false,
            },
            _ => true,
        }
    }
    fn has_call(e: &Expr) -> bool {
        match e {
            Expr::Call(_) | Expr::PeekZ(..) | Expr::PeekNZ(..) => true,
            Expr::Bin(_, a, b) => has_call(a) || has_call(b),
            Expr::If(c, t, f) => has_call(c) || has_call(t) || has_call(f),
            _ => false,
        }
    }
    match only {
        Some(m) => mono(&prog.nodes[m].body, inp),
        None => prog.nodes.iter().all(|n| mono(&n.body, inp)),
    }
}

/// C15 oracle precondition. salsa's contract for fixpoint functions is that bodies and
/// `cycle_fn` are monotone; the C15 programs break it on purpose while the switch input is odd.
/// A memo completed in such a revision may hold a value that is not a function of its
/// dependencies (the join of an oscillating sequence, some non-least fixpoint), and salsa is
/// entitled to keep it while its dependencies' stamps do not move. `taint[m]` says that the memo
/// m currently holds is, or was computed from, such a value; requests whose memo is tainted are
/// not judged against the reference. Memos of a cycle that ended in the iteration-limit panic are
/// *not* excused: they are provisional and must not survive.
pub fn update_taint(prog: &Prog, inp: &refint::Inputs, recs: &[Stamped], taint: &mut [bool]) {
    let execs = mon::executions(recs);
    let nn = prog.nodes.len();
    let edges = refint::call_edges(prog, inp);
    let (comp, _) = refint::sccs(&edges);
    let mut last: Vec<Option<usize>> = vec![None; nn];
    let mut unwound = vec![false; nn];
    for (i, e) in execs.iter().enumerate() {
        let m = e.act.node as usize;
        if m >= nn {
            continue;
        }
        if e.value.is_some() {
            last[m] = Some(i);
        } else {
            unwound[m] = true;
        }
    }
    for m in 0..nn {
        if last[m].is_some() && (0..nn).any(|u| unwound[u] && comp[u] == comp[m]) {
            last[m] = None;
        }
    }
    let mut t_new: Vec<bool> = (0..nn)
        .map(|m| last[m].is_some() && !node_monotone_now(prog, inp, m))
        .collect();
    loop {
        let mut changed = false;
        for m in 0..nn {
            let Some(i) = last[m] else { continue };
            if t_new[m] {
                continue;
            }
            let dirty = execs[i].reads.iter().any(|(rk, _)| match rk {
                ReadK::Call(_, c, _) => {
                    let c = *c as usize;
                    c < nn && if last[c].is_some() { t_new[c] } else { taint[c] }
                }
                _ => false,
            });
            if dirty {
                t_new[m] = true;
                changed = true;
            }
        }
        if !changed {
            break;
        }
    }
    for m in 0..nn {
        if last[m].is_some() {
            taint[m] = t_new[m];
        }
    }
}

pub fn cyclic_case(o: &Opts, case_seed: u64) -> CaseReport {
    let mut rng = Rng::new(case_seed);
    let mut cfg = cyc_cfg(&o.prop, &mut rng);
    cfg.lru_fix = o.retain;
    let mut prog = gen_prog(&mut rng, &cfg);
    let mut hist = gen_history(&mut rng, &cfg, &prog);
    if o.prop == "C15" {
        // switch the guarded non-monotone operators on, let the cycles diverge, then switch them off:
        // the same functions must converge in the later revision
        let all: Vec<Step> = (0..prog.nodes.len()).map(|n| Step::Req(Req::Node(n))).collect();
        let odd = (rng.below(2048) as u16) * 2 + 1;
        let even = (rng.below(2048) as u16) * 2;
        // in a diverging revision either every function is requested or just one entry point
        // (so that provisional memos of inner heads are left behind by the panic)
        let mut some = |rng: &mut Rng| -> Vec<Step> {
            if rng.chance(1, 2) {
                all.clone()
            } else {
                vec![Step::Req(Req::Node(rng.below(prog.nodes.len())))]
            }
        };
        let mut h = vec![Step::Set { cell: 0, field: 0, val: odd, dur: None }];
        h.extend(some(&mut rng));
        h.extend(hist.drain(..));
        h.push(Step::Set { cell: 0, field: 0, val: odd, dur: None });
        h.extend(some(&mut rng));
        h.push(Step::Set { cell: 0, field: 0, val: even, dur: None });
        h.extend(all.iter().cloned());
        hist = h;
    }
    if o.sub == "demo12" {
        // experiment: the exact shape and history of a known-tricky case
        let mut r2 = Rng::new(1);
        let mut c2 = cfg.clone();
        c2.cyclic = Some(CycCfg { peek: true, kinds: vec![(Kind::Fix, 1)], nonmonotone: false, bits: 3 });
        loop {
            prog = gen_prog(&mut r2, &c2);
            if prog.nodes.len() == 5 && matches!(prog.nodes[0].body, Expr::PeekZ(1, 2, _)) {
                break;
            }
        }
        let set = |c, f, v| Step::Set { cell: c, field: f, val: v, dur: None };
        hist = vec![
            set(0, 0, 3), set(0, 1, 1), set(1, 0, 3),
            Step::Req(Req::Node(0)), Step::Req(Req::Node(2)), Step::Req(Req::Node(3)), Step::Req(Req::Node(4)),
            set(0, 0, 2),
            Step::Req(Req::Node(0)), Step::Req(Req::Node(2)), Step::Req(Req::Node(3)), Step::Req(Req::Node(4)), Step::Req(Req::Node(1)),
        ];
    }
    let mut rep = CaseReport::new();
    rep.sample = format!("PROG {prog} HISTORY {}", fmt_history(&hist));
    rep.sig = hash_str(&rep.sample);
    let mut runner = Runner::new(&prog, true);
    runner
        .ctx
        .retain_refs
        .store(o.retain, std::sync::atomic::Ordering::Relaxed);
    let bound = 4 * 200 * (prog.nodes.len() as u64 + 2).pow(2);
    runner
        .ctx
        .step_bound
        .store(bound, std::sync::atomic::Ordering::Relaxed);
    let mut entry_points = std::collections::BTreeSet::new();
    let mut first_req_in_rev = true;
    let mut mismatch: Option<(usize, Outcome)> = None;
    let mut panicked_in_rev = false;
    let mut diverged_before = false;
    let mut taint = vec![false; prog.nodes.len()];
    let mut taint_clock = 0u64;
    for (si, step) in hist.iter().enumerate() {
        match step {
            Step::Req(Req::Node(n)) => {
                let got = runner.request(&Req::Node(*n));
                let info = refint::cyc_info(&prog, &runner.inp, *n);
                if info.in_cycle {
                    rep.counts.inc("cyclic_requests");
                    if first_req_in_rev {
                        entry_points.insert(*n);
                    }
                }
                if info.nested {
                    rep.counts.inc("nested_cycle_requests");
                }
                first_req_in_rev = false;
                if let Outcome::Panic(_, m) = &got {
                    if m.contains("svh-step-bound") {
                        rep.violations.push(format!(
                            "step {si}: request n{n} exceeded the step bound {bound} (unbounded re-execution)"
                        ));
                        break;
                    }
                }
                let mut exp = cyc_expect(&o.prop, &prog, &runner.inp, *n);
                if o.prop == "C15" {
                    let recs = runner.ctx.log.since(taint_clock);
                    taint_clock = runner.ctx.log.now();
                    update_taint(&prog, &runner.inp, &recs, &mut taint);
                    if exp.is_some() && taint[*n] && matches!(got, Outcome::Val(_)) {
                        rep.counts.inc("requests_not_judged_memo_from_nonmonotone_revision");
                        exp = None;
                    }
                }
                match exp {
                    Some(exp) => {
                        rep.counts.inc("decided_requests");
                        if diverged_before && info.in_cycle {
                            rep.counts.inc("cyclic_requests_decided_after_divergence");
                        }
                        let may_cycle_panic = match &exp {
                            Expect::Panic(PanicClass::Cycle) => true,
                            Expect::OneOf(xs) => xs.contains(&Expect::Panic(PanicClass::Cycle)),
                            _ => false,
                        };
                        let ok = match &got {
                            // a recovering head poisoned by a cycle panic earlier in this revision
                            // reports later requests as a propagated panic
                            Outcome::Panic(PanicClass::Propagated, _) if may_cycle_panic && panicked_in_rev => true,
                            _ => outcome_matches(&exp, &got),
                        };
                        if matches!(got, Outcome::Panic(..)) {
                            panicked_in_rev = true;
                        }
                        if matches!(got, Outcome::Panic(PanicClass::Cycle, _)) {
                            rep.counts.inc("cycle_panics");
                        }
                        if !ok {
                            mismatch = Some((*n, got.clone()));
                            rep.violations.push(format!(
                                "step {si}: request n{n} at rev {} returned {got:?}, reference says {exp:?} (inputs {:?})",
                                runner.world.rev(),
                                runner.inp.cells
                            ));
                            break;
                        }
                    }
                    None => {
                        rep.counts.inc("undecided_requests");
                        // C15: non-monotone now. Accept value / TooMany / propagated.
                        match &got {
                            Outcome::Val(_) => rep.counts.inc("nonmono_value"),
                            Outcome::Panic(PanicClass::TooMany, _) => {
                                rep.counts.inc("too_many_panics");
                                diverged_before = true;
                            }
                            Outcome::Panic(PanicClass::Propagated, _) => rep.counts.inc("propagated_panics"),
                            other => {
                                rep.violations.push(format!(
                                    "step {si}: request n{n}: non-converging cycle ended with {other:?}"
                                ));
                                break;
                            }
                        }
                    }
                }
            }
            Step::Req(_) => {}
            w => {
                runner.write(w);
                first_req_in_rev = true;
                panicked_in_rev = false;
                let an = runner.quiescent_anomalies();
                if !an.is_empty() {
                    rep.counts.inc("h3_anomalies");
                }
            }
        }
    }
    if o.retain {
        let n = runner.ctx.retained.lock().unwrap().len() as u64;
        rep.counts.add("retained_refs_checked", n + runner.retained_checked);
        rep.violations.extend(runner.ctx.check_retained());
    }
    rep.violations.extend(runner.violations.drain(..));
    let log = runner.take_log();
    dump_log(&log);
    rep.counts.merge(&mon::basic_stats(&log));
    let mixed = prog.nodes.iter().any(|x| matches!(x.kind, Kind::Plain | Kind::NoEq))
        && prog.nodes.iter().any(|x| matches!(x.kind, Kind::Fix | Kind::FixJ | Kind::Fb));
    if let (Some((_, got)), true) = (&mismatch, mixed) {
        // cycles mixing recovering and non-recovering functions: see known findings F11 / F12
        let sig = match got {
            Outcome::Val(_) => Some("C14/provisional_memo_of_plain_participant_served_to_other_thread"),
            Outcome::Panic(_, m) if crate::camp_conc::is_internal_cycle_assertion(m) => {
                Some("C14/internal_panic_participant_without_outer_cycle")
            }
            _ => None,
        };
        if let (Some(sig), Some(m)) = (sig, rep.violations.last_mut()) {
            m.push_str(&format!(" [sig:{sig}]"));
        }
    } else if let Some((n, got)) = &mismatch {
        if let Some(sig) = classify_cyc_mismatch(&prog, &runner.inp, &log, *n, got) {
            if let Some(m) = rep.violations.last_mut() {
                m.push_str(&format!(" [sig:{sig}]"));
            }
        }
    }
    // iteration bound
    for (_, _, r) in &log {
        if let Rec::Ev(Ev::WillIterate(k, it)) = r {
            rep.counts.inc("iterations");
            if *it > 200 {
                rep.violations
                    .push(format!("WillIterateCycle for {k:?} with iteration {it} > 200"));
            }
        }
    }
    rep.counts.add("entry_points", entry_points.len() as u64);
    let s = &rep.counts;
    rep.nontrivial = match o.prop.as_str() {
        "C12" => s.get("cyclic_requests") > 0 && s.get("ev_iterate") > 0,
        "C13" => s.get("cyclic_requests") > 0,
        "C14" => s.get("cycle_panics") > 0,
        "C15" => s.get("too_many_panics") > 0,
        _ => true,
    };
    rep
}

/// Any value-controlled callee set (`peekz` or `peeknz`).
pub fn has_peek(e: &Expr) -> bool {
    match e {
        Expr::PeekNZ(..) | Expr::PeekZ(..) => true,
        Expr::Bin(_, a, b) => has_peek(a) || has_peek(b),
        Expr::If(a, b, c) => has_peek(a) || has_peek(b) || has_peek(c),
        _ => false,
    }
}

pub fn has_peeknz(e: &Expr) -> bool {
    match e {
        Expr::PeekNZ(..) => true,
        Expr::Bin(_, a, b) => has_peeknz(a) || has_peeknz(b),
        Expr::If(a, b, c) => has_peeknz(a) || has_peeknz(b) || has_peeknz(c),
        Expr::PeekZ(_, _, g) => has_peeknz(g),
        _ => false,
    }
}

pub fn dump_log(log: &[Stamped]) {
    if std::env::var("SVH_DUMP").is_ok() {
        for (c, th, r) in log {
            eprintln!("{c:6} t{th} {r:?}");
        }
    }
}

/// Narrow classification of a value mismatch on a cyclic program into the failure classes
/// listed in known_findings.json. Anything that does not fit exactly stays unclassified.
pub fn classify_cyc_mismatch(
    prog: &Prog,
    inp: &refint::Inputs,
    log: &[Stamped],
    n: usize,
    got: &Outcome,
) -> Option<&'static str> {
    let edges = refint::call_edges(prog, inp);
    let (comp, cyc) = refint::sccs(&edges);
    // F18: a monotone program in which a callee is consulted only once another callee has left
    // bottom (`peeknz`) oscillates between two dependency shapes and runs into the iteration limit
    if let Outcome::Panic(PanicClass::TooMany, _) = got {
        let all_fix = prog.nodes.iter().all(|x| matches!(x.kind, Kind::Fix | Kind::FixJ));
        let reach = refint::reachable(&edges, n);
        if all_fix && reach.iter().any(|&x| has_peek(&prog.nodes[x].body)) {
            return Some("C12/value_controlled_callee_set/iteration_limit_on_monotone_program");
        }
        return None;
    }
    if let Outcome::Panic(_, msg) = got {
        // F20: salsa's own backdate-violation check fires for a fixpoint function of a cycle with a
        // value-controlled callee set (the regression F8 repaired for fixed callee sets)
        let all_fix = prog.nodes.iter().all(|x| matches!(x.kind, Kind::Fix | Kind::FixJ));
        let reach = refint::reachable(&edges, n);
        let _ = &reach;
        let all_fb = prog.nodes.iter().all(|x| x.kind == Kind::Fb);
        if (all_fix || all_fb) && msg.contains("returned the same value, but the previous execution changed at") {
            return Some("C12/fixpoint_stamp_regresses_across_iterations/backdate_violation_panic");
        }
    }
    let Outcome::Val(g) = got else { return None };
    let all_fb = prog.nodes.iter().all(|x| x.kind == Kind::Fb);

    // records of the current revision
    let start = log
        .iter()
        .rposition(|(_, _, r)| matches!(r, Rec::WriteDone(..)))
        .map(|i| i + 1)
        .unwrap_or(0);
    let cur = &log[start..];
    let executed_now = |m: usize| {
        cur.iter()
            .any(|(_, _, r)| matches!(r, Rec::Enter(a) if a.node as usize == m))
    };
    let keymap = mon::key_map(log);
    let validated_now = |m: usize| {
        cur.iter().any(|(_, _, r)| match r {
            Rec::Ev(Ev::DidValidate(k)) => keymap.get(k).map(|a| a.node as usize) == Some(m),
            _ => false,
        })
    };
    if all_fb {
        // Members of cyclic SCCs whose most recent completed execution ran *outside* of any cycle
        // (no member of its SCC was executing, and no cycle was detected during it) although the
        // call graph of the inputs of that time already had it inside a cyclic SCC.
        let execs = mon::executions(log);
        let mut over = std::collections::BTreeMap::new();
        for m in 0..prog.nodes.len() {
            if !cyc[comp[m]] {
                continue;
            }
            let Some(e) = execs
                .iter()
                .rev()
                .find(|e| e.act.node as usize == m && e.value.is_some())
            else {
                continue;
            };
            // inputs at the time of that execution
            let mut then = refint::Inputs {
                cells: vec![[0, 0]; prog.ncells],
                unt: inp.unt.clone(),
            };
            for (clk, _, r) in log {
                if *clk > e.start {
                    break;
                }
                if let Rec::SetField(c, f, v, _) = r {
                    then.cells[*c as usize][*f as usize] = *v;
                }
            }
            let edges_then = refint::call_edges(prog, &then);
            let (comp_t, cyc_t) = refint::sccs(&edges_then);
            if !cyc_t[comp_t[m]] {
                continue;
            }
            // did salsa have any way to see a cycle during this execution?
            let touches = cycle_touches(log, &execs, &comp_t, comp_t[m]);
            let cycle_seen = touches[execs.iter().position(|o| o.start == e.start).unwrap()];
            let served_from_memo = true;
            // the value salsa actually handed out for m after that execution
            let mut observed: Option<u16> = None;
            let mut pending_top: Option<usize> = None;
            for (clk, _, r) in log {
                if *clk < e.end {
                    continue;
                }
                match r {
                    Rec::Read(ReadK::Call(_, c, _), v) if *c as usize == m => observed = Some(*v),
                    Rec::Call(_, Req::Node(x)) => pending_top = Some(*x),
                    Rec::Ret(_, Outcome::Val(v)) => {
                        if pending_top.take() == Some(m) {
                            observed = Some(*v);
                        }
                    }
                    _ => {}
                }
            }
            if n == m {
                observed = Some(*g);
            }
            if let Some(v) = observed {
                if served_from_memo && !cycle_seen && v != prog.nodes[m].fb && Some(v) == e.value {
                    over.insert(m, v);
                }
            }
        }
        if !over.is_empty() {
            let alt = refint::fallback_values_with(prog, inp, &over);
            if alt[n] == *g {
                return Some("C13/fallback_participant_reexecuted_outside_cycle");
            }
        }
        // F21: the analogue of F5 for cycle_result functions. A participant's memo stores the
        // *flattened* inputs of its cycle; the set lacks an input read by a fellow member, so after
        // a write to that input the participant is validated green and keeps its old value.
        {
            let expect = refint::fallback_values(prog, inp);
            let nn = prog.nodes.len();
            let execs_old = mon::executions(&log[..start]);
            let mut served: Vec<Option<u16>> = vec![None; nn];
            let mut pending_top: Option<usize> = None;
            for (_, _, r) in cur {
                match r {
                    Rec::Read(ReadK::Call(_, c, _), v) => served[*c as usize] = Some(*v),
                    Rec::Call(_, Req::Node(x)) => pending_top = Some(*x),
                    Rec::Ret(_, Outcome::Val(v)) => {
                        if let Some(x) = pending_top.take() {
                            served[x] = Some(*v);
                        }
                    }
                    _ => {}
                }
            }
            served[n] = Some(*g);
            for x in 0..nn {
                if served[x].is_none() && validated_now(x) {
                    served[x] = execs_old
                        .iter()
                        .rev()
                        .find(|e| e.act.node as usize == x && e.value.is_some())
                        .and_then(|e| e.value);
                }
            }
            let stale: Vec<usize> = (0..nn)
                .filter(|&x| !executed_now(x) && served[x].is_some_and(|v| v != expect[x]))
                .collect();
            fn reads_in(e: &Expr, c: usize, f: usize) -> bool {
                match e {
                    Expr::In(a, b) => *a == c && *b == f,
                    Expr::Bin(_, a, b) => reads_in(a, c, f) || reads_in(b, c, f),
                    Expr::If(a, b, d) => reads_in(a, c, f) || reads_in(b, c, f) || reads_in(d, c, f),
                    _ => false,
                }
            }
            let is_root = |m: usize| -> bool {
                let Some(e) = execs_old.iter().rev().find(|e| e.act.node as usize == m && e.value.is_some()) else {
                    return false;
                };
                let direct_changed = e.reads.iter().any(|(rk, v)| match rk {
                    ReadK::In(c, f) => inp.cells[*c as usize][*f as usize] != *v,
                    _ => false,
                });
                let mut written: Vec<(usize, usize)> = Vec::new();
                let mut then = refint::Inputs {
                    cells: vec![[0, 0]; prog.ncells],
                    unt: inp.unt.clone(),
                };
                for (clk, _, r) in log {
                    if let Rec::SetField(c, f, v, _) = r {
                        if *clk > e.end {
                            written.push((*c as usize, *f as usize));
                        } else if *clk <= e.start {
                            then.cells[*c as usize][*f as usize] = *v;
                        }
                    }
                }
                let edges_t = refint::call_edges(prog, &then);
                let (comp_t, cyc_t) = refint::sccs(&edges_t);
                let reach_t = refint::reachable(&edges_t, m);
                let via_own_cycle = written.iter().any(|(c, f)| {
                    (0..nn).any(|o| {
                        o != m
                            && (reach_t.contains(&o) || comp_t[o] == comp_t[m])
                            && reads_in(&prog.nodes[o].body, *c, *f)
                    })
                });
                cyc_t[comp_t[m]] && validated_now(m) && !direct_changed && via_own_cycle
            };
            // a root need not be stale by value itself (its fallback may equal its old value): what
            // matters is that it was validated green and so kept its dependents from re-executing
            let roots: Vec<usize> = (0..nn).filter(|&m| !executed_now(m) && is_root(m)).collect();
            let explained = |x: usize| -> bool {
                let reach = refint::reachable(&edges, x);
                roots.iter().any(|r| *r == x || reach.contains(r))
            };
            if std::env::var("SVH_DUMP").is_ok() {
                eprintln!("classify C13: n={n} stale={stale:?} roots={roots:?} served={served:?} expect={expect:?}");
            }
            if !roots.is_empty() && explained(n) && stale.iter().all(|&x| explained(x)) {
                return Some("C13/stale_participant_validated_missing_flattened_input");
            }
        }
        return None;
    }
    let all_fix = prog
        .nodes
        .iter()
        .all(|x| matches!(x.kind, Kind::Fix | Kind::FixJ));
    if all_fix {
        let lfp = refint::lfp_kleene(prog, inp, 400)?;
        let execs = mon::executions(&log[..start]);
        fn reads_input(e: &Expr, c: usize, f: usize) -> bool {
            match e {
                Expr::In(a, b) => *a == c && *b == f,
                Expr::Bin(_, a, b) => reads_input(a, c, f) || reads_input(b, c, f),
                Expr::If(a, b, d) => reads_input(a, c, f) || reads_input(b, c, f) || reads_input(d, c, f),
                Expr::PeekZ(_, _, g) | Expr::PeekNZ(_, _, g) => reads_input(g, c, f),
                _ => false,
            }
        }
        // values handed out in the current revision for functions that did not execute in it
        let nn = prog.nodes.len();
        let mut served: Vec<Option<u16>> = vec![None; nn];
        let mut pending_top: Option<usize> = None;
        for (_, _, r) in cur {
            match r {
                Rec::Read(ReadK::Call(_, c, _), v) => served[*c as usize] = Some(*v),
                Rec::Call(_, Req::Node(x)) => pending_top = Some(*x),
                Rec::Ret(_, Outcome::Val(v)) => {
                    if let Some(x) = pending_top.take() {
                        served[x] = Some(*v);
                    }
                }
                _ => {}
            }
        }
        served[n] = Some(*g);
        // memo values not handed out in this revision: the value of the last completed execution
        for x in 0..nn {
            if served[x].is_none() && validated_now(x) {
                served[x] = execs
                    .iter()
                    .rev()
                    .find(|e| e.act.node as usize == x && e.value.is_some())
                    .and_then(|e| e.value);
            }
        }
        let stale: Vec<usize> = (0..nn)
            .filter(|&x| !executed_now(x) && served[x].is_some_and(|v| v != lfp[x]))
            .collect();
        // a stale memo of the described class: an inner cycle head validated green although an
        // input read (only) by other members of its cycle was written since its last execution
        let is_root = |m: usize| -> u8 {
            let last = execs.iter().rev().find(|e| e.act.node as usize == m && e.value.is_some());
            let Some(e) = last else { return 0 };
            let direct_changed = e.reads.iter().any(|(rk, v)| match rk {
                ReadK::In(c, f) => inp.cells[*c as usize][*f as usize] != *v,
                _ => false,
            });
            let mut written: Vec<(usize, usize)> = Vec::new();
            for (clk, _, r) in log {
                if let Rec::SetField(c, f, _, _) = r {
                    if *clk > e.end {
                        written.push((*c as usize, *f as usize));
                    }
                }
            }
            // call graph of the inputs the member was last executed with
            let mut then = refint::Inputs {
                cells: vec![[0, 0]; prog.ncells],
                unt: inp.unt.clone(),
            };
            for (clk, _, r) in log {
                if *clk > e.start {
                    break;
                }
                if let Rec::SetField(c, f, v, _) = r {
                    then.cells[*c as usize][*f as usize] = *v;
                }
            }
            let edges_t = refint::call_edges(prog, &then);
            let (comp_t, cyc_t) = refint::sccs(&edges_t);
            // ... read by another member of its cycle or by a function such a member calls
            let reach_t = refint::reachable(&edges_t, m);
            let via_own_cycle = written.iter().any(|(c, f)| {
                reach_t
                    .iter()
                    .any(|&o| o != m && reads_input(&prog.nodes[o].body, *c, *f))
            });
            let nested = refint::cyc_info(prog, &then, m).nested;
            // F18b: without nesting the same lag needs a member whose callee set depends on a value
            // (it reads a new callee in the last iteration while its value stays the same)
            let nz = reach_t.iter().any(|&o| has_peeknz(&prog.nodes[o].body));
            if cyc_t[comp_t[m]] && validated_now(m) && !direct_changed && via_own_cycle {
                if nested {
                    return 1;
                }
                if nz {
                    return 2;
                }
            }
            0
        };
        let root_kind: Vec<u8> = (0..nn).map(|m| if stale.contains(&m) { is_root(m) } else { 0 }).collect();
        let roots: Vec<usize> = stale.iter().copied().filter(|&m| root_kind[m] == 1).collect();
        let explained = |x: usize| -> bool {
            let reach = refint::reachable(&edges, x);
            roots.iter().any(|r| *r == x || reach.contains(r))
        };
        if std::env::var("SVH_DUMP").is_ok() {
            eprintln!("classify C12: n={n} stale={stale:?} roots={roots:?} served={served:?} lfp={lfp:?}");
        }
        if !roots.is_empty() && explained(n) && stale.iter().all(|&x| explained(x)) {
            return Some("C12/stale_inner_head_validated_missing_flattened_input");
        }
        // F18 (second face): a member of a former cycle is validated green *inside the execution*
        // of a fellow member that is entered first in the new revision and changes its value; in
        // programs with a value-controlled callee set that execution finishes without ever seeing
        // the cycle, so the validated member keeps its old value for the rest of the revision
        let validated_inside_fellow = |m: usize| -> bool {
            let Some(e) = execs.iter().rev().find(|e| e.act.node as usize == m && e.value.is_some()) else {
                return false;
            };
            let mut then = refint::Inputs {
                cells: vec![[0, 0]; prog.ncells],
                unt: inp.unt.clone(),
            };
            for (clk, _, r) in log {
                if *clk > e.start {
                    break;
                }
                if let Rec::SetField(c, f, v, _) = r {
                    then.cells[*c as usize][*f as usize] = *v;
                }
            }
            let edges_t = refint::call_edges(prog, &then);
            let (comp_t, cyc_t) = refint::sccs(&edges_t);
            if !cyc_t[comp_t[m]] {
                return false;
            }
            let has_nz = (0..nn).any(|x| comp_t[x] == comp_t[m] && has_peeknz(&prog.nodes[x].body));
            if !has_nz {
                return false;
            }
            // executions of the current revision that enclose a DidValidate of m
            let mut open: Vec<usize> = Vec::new();
            for (_, _, r) in cur {
                match r {
                    Rec::Enter(a) => open.push(a.node as usize),
                    Rec::Exit(..) | Rec::Unwound(_) => {
                        open.pop();
                    }
                    Rec::Ev(Ev::DidValidate(k)) if keymap.get(k).map(|a| a.node as usize) == Some(m) => {
                        if open.iter().any(|&x| x != m && comp_t[x] == comp_t[m]) {
                            return true;
                        }
                    }
                    _ => {}
                }
            }
            false
        };
        let roots2: Vec<usize> = stale
            .iter()
            .copied()
            .filter(|&m| root_kind[m] != 0 || validated_inside_fellow(m))
            .collect();
        let explained2 = |x: usize| -> bool {
            let reach = refint::reachable(&edges, x);
            roots2.iter().any(|r| *r == x || reach.contains(r))
        };
        if !roots2.is_empty() && explained2(n) && stale.iter().all(|&x| explained2(x)) {
            return Some("C12/value_controlled_callee_set/stale_cycle_member");
        }
        // F19: a function was executed in this revision with the *initial* value of a function h
        // that was executing around it (so its result is provisional on h), but h completed
        // without iterating (its own new execution no longer reaches that function), and the
        // provisional result is served as final afterwards
        let execs_cur = mon::executions(cur);
        let mut leaked: Vec<usize> = Vec::new();
        for m in 0..nn {
            let Some(e) = execs_cur.iter().rev().find(|e| e.act.node as usize == m && e.value.is_some()) else {
                continue;
            };
            if e.value == Some(lfp[m]) {
                continue;
            }
            // cycle_initial of an enclosing execution consumed inside e
            let mut heads: Vec<usize> = Vec::new();
            for (clk, th, r) in cur {
                if *clk > e.start && *clk < e.end && *th == e.th {
                    if let Rec::CycleInitial(h) = r {
                        // h is executing around e, or is being verified around e (no execution of
                        // h starts inside e: that would be an inner cycle iterated within e)
                        let inner = execs_cur
                            .iter()
                            .any(|o| o.th == e.th && o.act.node as usize == *h && o.start > e.start && o.start < e.end);
                        if !inner && *h != m {
                            heads.push(*h);
                        }
                    }
                }
            }
            // ... or the provisional value of a function that was executing around e
            for (clk, it) in &e.items {
                if let mon::Item::Read(ReadK::Call(_, h, _), _) = it {
                    let h = *h as usize;
                    let enclosing = execs_cur.iter().any(|o| {
                        o.th == e.th
                            && o.act.node as usize == h
                            && o.start < e.start
                            && o.start < *clk
                            && (o.end == 0 || o.end > e.end)
                    });
                    if enclosing && h != m {
                        heads.push(h);
                    }
                }
            }
            if heads.is_empty() {
                continue;
            }
            // none of those heads iterated after e
            let iterated = cur.iter().any(|(clk, _, r)| match r {
                Rec::Ev(Ev::WillIterate(k, _)) if *clk > e.end => {
                    keymap.get(k).is_some_and(|a| heads.contains(&(a.node as usize)))
                }
                _ => false,
            });
            if !iterated {
                leaked.push(m);
            }
        }
        let explained3 = |x: usize| -> bool {
            let reach = refint::reachable(&edges, x);
            leaked.iter().any(|r| *r == x || reach.contains(r))
        };
        if !leaked.is_empty() && explained3(n) && stale.iter().all(|&x| explained3(x) || explained2(x)) {
            return Some("C12/provisional_result_left_behind_by_head_that_completed_without_iterating");
        }
    }
    None
}

/// For every reconstructed execution: could salsa observe, during it, that it is part of a cycle,
/// i.e. did it (transitively) re-enter itself or a function that was executing around it?
/// Evidence: a cycle_result/cycle_initial call for, or a read of, a function that was executing
/// at that moment -- counted only when that function is the execution itself or encloses it --
/// directly, through nested executions, or through the result of an execution of the same
/// top-level request that touched such a frame which is still active (a provisional memo).
/// Inner cycles that start and finish inside the execution, and reads served from memos of
/// earlier requests / revisions, are no evidence. Only members of the strongly connected
/// component `scc` are considered.
pub fn cycle_touches(log: &[Stamped], execs: &[mon::Exec], comp: &[usize], scc: usize) -> Vec<bool> {
    use std::collections::BTreeSet;
    let mut req_starts: Vec<u64> = Vec::new();
    for (clk, _, r) in log {
        if matches!(r, Rec::Call(..)) {
            req_starts.push(*clk);
        }
    }
    let req_of = |t: u64| req_starts.partition_point(|s| *s <= t);
    let endof = |o: &mon::Exec| if o.end == 0 { u64::MAX } else { o.end };
    // innermost execution of `node` active at clock t
    let active_exec = |node: usize, t: u64| -> Option<usize> {
        execs
            .iter()
            .enumerate()
            .filter(|(_, o)| o.act.node as usize == node && o.start < t && endof(o) > t)
            .max_by_key(|(_, o)| o.start)
            .map(|(i, _)| i)
    };
    let cyc_recs: Vec<(u64, usize)> = log
        .iter()
        .filter_map(|(c, _, r)| match r {
            Rec::CycleInitial(x) if comp[*x] == scc => Some((*c, *x)),
            _ => None,
        })
        .collect();
    let mut order: Vec<usize> = (0..execs.len()).collect();
    order.sort_by_key(|&i| endof(&execs[i]));
    let mut heads: Vec<BTreeSet<usize>> = vec![BTreeSet::new(); execs.len()];
    for &i in &order {
        let x = &execs[i];
        let end = endof(x);
        let mut h: BTreeSet<usize> = BTreeSet::new();
        for (c, node) in &cyc_recs {
            if *c > x.start && *c < end {
                if let Some(a) = active_exec(*node, *c) {
                    h.insert(a);
                }
            }
        }
        for (j, y) in execs.iter().enumerate() {
            if j != i && y.start > x.start && endof(y) < end {
                h.extend(heads[j].iter().copied());
            }
        }
        for (clk, it) in &x.items {
            if let mon::Item::Read(ReadK::Call(_, c, _), _) = it {
                let c = *c as usize;
                if comp[c] != scc {
                    continue;
                }
                if let Some(a) = active_exec(c, *clk) {
                    h.insert(a);
                    continue;
                }
                if let Some((j, y)) = execs
                    .iter()
                    .enumerate()
                    .filter(|(_, y)| y.act.node as usize == c && y.end != 0 && y.end < *clk)
                    .max_by_key(|(_, y)| y.end)
                {
                    if req_of(y.start) == req_of(*clk) {
                        for &a in &heads[j] {
                            if endof(&execs[a]) > *clk {
                                h.insert(a);
                            }
                        }
                    }
                }
            }
        }
        heads[i] = h;
    }
    (0..execs.len())
        .map(|i| {
            let e = &execs[i];
            heads[i].iter().any(|&a| {
                a == i || (execs[a].start < e.start && endof(&execs[a]) > endof(e).min(u64::MAX - 1))
            })
        })
        .collect()
}
