//! C03: justification model for re-executions.
use crate::log::Stamped;
use crate::prog::Prog;
use crate::single::Runner;
use crate::util::Counts;

pub fn check(_prog: &Prog, _log: &[Stamped], _r: &Runner) -> (Vec<String>, Counts) {
    (vec![], Counts::default())
}
