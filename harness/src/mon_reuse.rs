//! C03: every re-execution observed through `WillExecute` must be justified by a change
//! recorded since the function was last validated.

use std::collections::{BTreeMap, HashMap};

use crate::log::*;
use crate::mon::{self, Exec, Item};
use crate::prog::Sym;
use crate::prog::*;
use crate::single::Runner;
use crate::util::Counts;

struct M<'a> {
    prog: &'a Prog,
    execs: &'a [Exec],
    by_key: HashMap<K, Vec<usize>>,
    /// logical activation -> [(clock of Enter, K)]
    key_of_act: HashMap<(FnK, u32, u16, u32, u32), Vec<(u64, K)>>,
    /// (cell, field) -> [(write revision, durability)]
    writes: HashMap<(u32, u32), Vec<(u64, u64, u8)>>,
    validations: HashMap<K, Vec<(u64, u64)>>,
    discards: Vec<(u64, K)>,
    /// struct id -> [(clock, rev, fields, exec index)]
    made: HashMap<(u32, u32), Vec<(u64, u64, [u16; 4], usize)>>,
    reuses: Vec<(u64, K)>,
    intern_changed: Vec<(u64, K)>,
    evictions: Vec<(u64, u32)>,
    sym_ing: [u32; 5],
    ent_ing: u32,
    durs: Vec<u8>,
    struct_durs: HashMap<(u32, u32), Vec<(u64, u8)>>,
}

/// Forward simulation of `ActiveQuery` durabilities: per execution (index as in
/// `mon::executions`) the durability of its completed memo, and per tracked struct the
/// durability it was (re-)created with over time. Interned values carry the maximum
/// durability of the queries that interned them; only values that stay LOW (and whose type
/// allows collection) are read as LOW dependencies.
fn simulate_durs(log: &[Stamped]) -> (Vec<u8>, HashMap<(u32, u32), Vec<(u64, u8)>>) {
    let mut durs: Vec<u8> = Vec::new();
    let mut struct_durs: HashMap<(u32, u32), Vec<(u64, u8)>> = HashMap::new();
    let mut field_dur: HashMap<(u32, u32), u8> = HashMap::new();
    let mut memo_dur: HashMap<(FnK, u32, u16, u32, u32), u8> = HashMap::new();
    let mut value_dur: HashMap<(u8, u32, u32), u8> = HashMap::new();
    // per thread: stack of (exec index, act, running durability)
    let mut stacks: HashMap<u8, Vec<(usize, ActK, u8)>> = HashMap::new();
    for (clk, th, r) in log {
        match r {
            Rec::SetField(c, f, _, d) => {
                field_dur.insert((*c, *f), *d);
            }
            Rec::Enter(a) => {
                durs.push(3);
                stacks.entry(*th).or_default().push((durs.len() - 1, *a, 3));
            }
            Rec::Read(k, _) => {
                let Some(fr) = stacks.entry(*th).or_default().last_mut() else { continue };
                match k {
                    ReadK::In(c, f) => fr.2 = fr.2.min(field_dur.get(&(*c, *f)).copied().unwrap_or(0)),
                    ReadK::Unt(_) => fr.2 = 0,
                    ReadK::Call(f, n, a) => {
                        fr.2 = fr.2.min(memo_dur.get(&(*f, *n, *a, 0, 0)).copied().unwrap_or(0))
                    }
                    ReadK::CallOn(f, idx, g) => {
                        fr.2 = fr.2.min(memo_dur.get(&(*f, 0, 0, *idx, *g)).copied().unwrap_or(0))
                    }
                    ReadK::Field(idx, g, f) => {
                        if *f != 0 {
                            let d = struct_durs
                                .get(&(*idx, *g))
                                .and_then(|v| v.last())
                                .map(|x| x.1)
                                .unwrap_or(0);
                            fr.2 = fr.2.min(d);
                        }
                    }
                    ReadK::Interned(..) => {}
                }
            }
            Rec::Interned(t, _, idx, g) => {
                match stacks.entry(*th).or_default().last_mut() {
                    Some(fr) => {
                        let e = value_dur.entry((*t, *idx, *g)).or_insert(fr.2);
                        *e = (*e).max(fr.2);
                        if *e == 0 && *t != Sym::Imm as u8 {
                            fr.2 = 0;
                        }
                    }
                    None => {
                        // top level: a value created outside any query is never reusable
                        value_dur.entry((*t, *idx, *g)).or_insert(3);
                    }
                }
            }
            Rec::Made(idx, g, _, _, _) => {
                if let Some(fr) = stacks.entry(*th).or_default().last() {
                    struct_durs.entry((*idx, *g)).or_default().push((*clk, fr.2));
                }
            }
            Rec::Exit(..) | Rec::Unwound(_) => {
                if let Some((i, a, d)) = stacks.entry(*th).or_default().pop() {
                    durs[i] = d;
                    if matches!(r, Rec::Exit(..)) {
                        memo_dur.insert(act_id(&a), d);
                    }
                }
            }
            _ => {}
        }
    }
    (durs, struct_durs)
}

fn act_id(a: &ActK) -> (FnK, u32, u16, u32, u32) {
    match a.f {
        FnK::OnEnt | FnK::Spec | FnK::OnSym => (a.f, 0, 0, a.key_idx, a.key_gen),
        _ => (a.f, a.node, a.arg, 0, 0),
    }
}

impl M<'_> {
    fn key_at(&self, id: (FnK, u32, u16, u32, u32), clock: u64) -> Option<K> {
        self.key_of_act
            .get(&id)?
            .iter()
            .rev()
            .find(|(c, _)| *c <= clock)
            .map(|x| x.1)
    }

    fn read_key(&self, r: &ReadK, clock: u64) -> Option<K> {
        match r {
            ReadK::Call(f, n, a) => self.key_at((*f, *n, *a, 0, 0), clock),
            ReadK::CallOn(f, idx, g) => self.key_at((*f, 0, 0, *idx, *g), clock),
            _ => None,
        }
    }

    fn dur_at(&self, cell: u32, field: u32, clock: u64) -> u8 {
        self.writes
            .get(&(cell, field))
            .and_then(|w| w.iter().rev().find(|(c, _, _)| *c <= clock))
            .map(|x| x.2)
            .unwrap_or(0)
    }

    fn last_completed_before(&self, k: &K, clock: u64) -> Option<usize> {
        self.by_key
            .get(k)?
            .iter()
            .rev()
            .copied()
            .find(|&i| self.execs[i].value.is_some() && self.execs[i].end <= clock)
    }

    fn exec_dur(&self, i: usize) -> u8 {
        self.durs.get(i).copied().unwrap_or(0)
    }

    /// durability a struct was (re-)created with, as of `clock`
    fn struct_dur(&self, idx: u32, g: u32, clock: u64) -> u8 {
        self.struct_durs
            .get(&(idx, g))
            .and_then(|v| v.iter().rev().find(|(c, _)| *c <= clock))
            .map(|x| x.1)
            .unwrap_or(0)
    }

    fn is_noeq(&self, a: &ActK) -> bool {
        a.f == FnK::NoEq
    }

    fn evicted_between(&self, a: &ActK, from: u64, to: u64) -> bool {
        a.f == FnK::Lru
            && self
                .evictions
                .iter()
                .any(|(c, n)| *n == a.node && *c > from && *c < to)
    }

    /// Did dependency `r` (recorded by an execution that ended at `old_end`) change after
    /// revision `lv` and before clock `t`?
    fn changed_since(&self, r: &ReadK, lv: u64, old_end: u64, t: u64) -> Option<&'static str> {
        match r {
            ReadK::In(c, f) => self
                .writes
                .get(&(*c, *f))
                .is_some_and(|w| w.iter().any(|(clk, rev, _)| *rev > lv && *clk < t))
                .then_some("input field written"),
            ReadK::Unt(_) => Some("untracked read"),
            ReadK::Call(..) | ReadK::CallOn(..) => {
                let k = self.read_key(r, old_end)?;
                if self
                    .discards
                    .iter()
                    .any(|(c, dk)| *dk == k && *c > old_end && *c < t)
                {
                    return Some("callee memo discarded");
                }
                if let ReadK::CallOn(_, idx, g) = r {
                    let sk = K {
                        ing: self.ent_ing,
                        idx: *idx,
                        gener: *g,
                    };
                    if self
                        .discards
                        .iter()
                        .any(|(c, dk)| *dk == sk && *c > old_end && *c < t)
                    {
                        return Some("callee key struct discarded");
                    }
                }
                let list = self.by_key.get(&k)?;
                let mut prev: Option<usize> = None;
                for &i in list {
                    let e = &self.execs[i];
                    if e.value.is_none() {
                        continue;
                    }
                    if e.end >= t {
                        break;
                    }
                    if e.rev > lv {
                        match prev {
                            None => return Some("callee had no previous value"),
                            Some(p) => {
                                let pe = &self.execs[p];
                                if self.is_noeq(&e.act) {
                                    return Some("callee is no_eq and re-executed");
                                }
                                if self.evicted_between(&pe.act, pe.end, e.start) {
                                    // the evicted value is gone, so the recomputed one cannot be
                                    // compared with it (no backdating): counts as a changed value
                                    return Some("callee recomputed after eviction");
                                }
                                let differs = if e.act.f == FnK::Maker {
                                    let a: Vec<(u32, u32)> = e.made.iter().map(|m| (m.0, m.1)).collect();
                                    let b: Vec<(u32, u32)> = pe.made.iter().map(|m| (m.0, m.1)).collect();
                                    a != b
                                } else {
                                    e.value != pe.value
                                };
                                if differs {
                                    return Some("callee produced a different value");
                                }
                                if self.exec_dur(i) < self.exec_dur(p) {
                                    return Some("callee became less durable");
                                }
                            }
                        }
                    }
                    prev = Some(i);
                }
                // evicted callee that is itself dirty answers "changed" without executing
                if let Some(p) = prev {
                    if self.evicted_between(&self.execs[p].act, self.execs[p].end, t) {
                        return Some("callee value evicted");
                    }
                }
                None
            }
            ReadK::Field(idx, g, f) => {
                if *f == 0 {
                    return None;
                }
                let ms = self.made.get(&(*idx, *g))?;
                let mut prev: Option<&(u64, u64, [u16; 4], usize)> = None;
                for m in ms {
                    if m.0 >= t {
                        break;
                    }
                    if m.1 > lv {
                        match prev {
                            None => return Some("tracked struct created"),
                            Some(p) => {
                                if *f == 3 {
                                    return Some("no_eq tracked field recreated");
                                }
                                if p.2[*f as usize] != m.2[*f as usize] {
                                    return Some("tracked field recreated with a different value");
                                }
                                if self.struct_dur(*idx, *g, m.0) < self.struct_dur(*idx, *g, p.0) {
                                    return Some("tracked struct became less durable");
                                }
                            }
                        }
                    }
                    prev = Some(m);
                }
                None
            }
            ReadK::Interned(t_sym, idx, g) => {
                let ing = self.sym_ing[*t_sym as usize];
                if self
                    .reuses
                    .iter()
                    .any(|(c, k)| k.ing == ing && k.idx == *idx && k.gener > *g && *c > old_end && *c < t)
                {
                    return Some("interned value reclaimed");
                }
                if self
                    .intern_changed
                    .iter()
                    .any(|(c, k)| k.ing == ing && k.idx == *idx && *c > old_end && *c < t)
                {
                    return Some("interned value reclaimed");
                }
                None
            }
        }
    }
}

pub fn check(prog: &Prog, log: &[Stamped], runner: &Runner) -> (Vec<String>, Counts) {
    let mut viol = Vec::new();
    let mut c = Counts::default();
    let execs = mon::executions(log);
    let mut by_key: HashMap<K, Vec<usize>> = HashMap::new();
    let mut key_of_act: HashMap<(FnK, u32, u16, u32, u32), Vec<(u64, K)>> = HashMap::new();
    for (i, e) in execs.iter().enumerate() {
        by_key.entry(e.key).or_default().push(i);
        key_of_act.entry(act_id(&e.act)).or_default().push((e.start, e.key));
    }
    let mut writes: HashMap<(u32, u32), Vec<(u64, u64, u8)>> = HashMap::new();
    let mut validations: HashMap<K, Vec<(u64, u64)>> = HashMap::new();
    let mut discards = Vec::new();
    let mut made: HashMap<(u32, u32), Vec<(u64, u64, [u16; 4], usize)>> = HashMap::new();
    let mut reuses = Vec::new();
    let mut intern_changed = Vec::new();
    // revision of each write = revision announced by the following WriteDone
    let mut pending_sets: Vec<(u64, u32, u32, u8)> = Vec::new();
    let mut rev = 1u64;
    for (clk, _, r) in log {
        match r {
            Rec::SetField(cc, f, _, d) => pending_sets.push((*clk, *cc, *f, *d)),
            Rec::WriteDone(_, r2) => {
                rev = *r2;
                for (cl, cc, f, d) in pending_sets.drain(..) {
                    writes.entry((cc, f)).or_default().push((cl, rev, d));
                }
            }
            Rec::Ev(Ev::DidValidate(k)) => validations.entry(*k).or_default().push((*clk, rev)),
            Rec::Ev(Ev::DidDiscard(k)) => discards.push((*clk, *k)),
            Rec::Ev(Ev::DidReuseInterned(k, _)) => reuses.push((*clk, *k)),
            Rec::InternChecked(k, true) => intern_changed.push((*clk, *k)),
            _ => {}
        }
    }
    for (i, e) in execs.iter().enumerate() {
        for (clk, it) in &e.items {
            if let Item::Made(idx, g, f) = it {
                made.entry((*idx, *g)).or_default().push((*clk, e.rev, *f, i));
            }
        }
    }
    for v in made.values_mut() {
        v.sort_by_key(|m| m.0);
    }
    let (_, _, evictions) = crate::mon_lru::replay(prog, log);
    let (durs, struct_durs) = simulate_durs(log);
    let m = M {
        prog,
        execs: &execs,
        by_key,
        key_of_act,
        writes,
        validations,
        discards,
        made,
        reuses,
        intern_changed,
        evictions,
        sym_ing: *runner.ctx.sym_ing.get().unwrap_or(&[u32::MAX; 5]),
        ent_ing: *runner.ctx.ent_ing.get().unwrap_or(&u32::MAX),
        durs,
        struct_durs,
    };
    let _ = m.prog;
    let mut classes: BTreeMap<&'static str, u64> = BTreeMap::new();
    for (i, e) in execs.iter().enumerate() {
        if e.key.ing == u32::MAX {
            continue; // no WillExecute seen (should not happen)
        }
        let list = &m.by_key[&e.key];
        let pos = list.iter().position(|x| *x == i).unwrap();
        // last execution of this key before this one
        let Some(&pi) = list[..pos].iter().rev().next() else {
            *classes.entry("first execution").or_default() += 1;
            continue;
        };
        let old = &m.execs[pi];
        if old.value.is_none() {
            *classes.entry("previous execution unwound").or_default() += 1;
            continue;
        }
        let t = e.start;
        let mut lv = old.rev;
        if let Some(vs) = m.validations.get(&e.key) {
            for (clk, r) in vs {
                if *clk < t && *clk > old.end {
                    lv = lv.max(*r);
                }
            }
        }
        let mut why: Option<&'static str> = None;
        if old.untracked {
            why = Some("previous execution read untracked state");
        }
        if why.is_none() && m.evicted_between(&old.act, old.end, t) {
            why = Some("value evicted");
        }
        if why.is_none()
            && m.discards
                .iter()
                .any(|(clk, k)| *k == e.key && *clk > old.end && *clk < t)
        {
            why = Some("memo discarded");
        }
        if why.is_none() {
            for (r, _) in &old.reads {
                if let Some(w) = m.changed_since(r, lv, old.end, t) {
                    why = Some(w);
                    break;
                }
            }
        }
        match why {
            Some(w) => {
                *classes.entry(w).or_default() += 1;
                c.inc("justified");
            }
            None => {
                let deps: Vec<String> = old
                    .reads
                    .iter()
                    .map(|(r, v)| format!("{r:?}={v}"))
                    .collect();
                viol.push(format!(
                    "unjustified re-execution of {:?} (key {:?}) in rev {} at clock {}: last executed in rev {} (value {:?}), last validated in rev {lv}; none of its recorded dependencies changed since: [{}]",
                    e.act,
                    e.key,
                    e.rev,
                    e.start,
                    old.rev,
                    old.value,
                    deps.join(", ")
                ));
                break;
            }
        }
    }
    for (k, v) in classes {
        c.add(&format!("why:{k}"), v);
    }
    (viol, c)
}
