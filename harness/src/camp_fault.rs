//! E-fault (C22): panic injection into user code. Run 0 of a case counts the user-code steps of
//! the whole history (body starts, mid-body points after each read / call / creation, `Eq` /
//! `Clone` of result and field values, `Hash` / `Eq` of interned keys, cycle functions, the event
//! callback by event kind); run `i` replays the history on a fresh database and panics at step
//! `i`. After the panic has reached the caller the injection is disarmed and recovery is checked.

use std::sync::atomic::Ordering;

use crate::camp::{CaseReport, Opts};
use crate::camp_single::{cyc_cfg, cyc_expect, gen_cfg};
use crate::fault::{FSITE_NAMES, FSite};
use crate::log::*;
use crate::prog::*;
use crate::refint::{self, Expect, PanicClass};
use crate::single::*;
use crate::util::*;

const ALL_SITES: u64 = (1 << 15) - 1;

fn gen_fault_case(rng: &mut Rng) -> (Prog, Vec<Step>, bool) {
    let cyclic = rng.chance(1, 4);
    if cyclic {
        let mut cfg = cyc_cfg("C12", rng);
        cfg.max_nodes = 4;
        cfg.hist_len = (6, 14);
        if let Some(c) = cfg.cyclic.as_mut() {
            c.peek = false;
            c.kinds = vec![(Kind::Fix, 1), (Kind::FixJ, 2)];
        }
        let prog = gen_prog(rng, &cfg);
        let hist = gen_history(rng, &cfg, &prog);
        (prog, hist, true)
    } else {
        let base = *rng.pick(&["C01", "C06", "C07", "C10", "C11", "C02"]);
        let mut cfg = gen_cfg(base, rng);
        cfg.max_nodes = 6;
        cfg.hist_len = (8, 18);
        cfg.untracked = false;
        cfg.spec_panics = false;
        cfg.never = false;
        let prog = gen_prog(rng, &cfg);
        let hist = gen_history(rng, &cfg, &prog);
        (prog, hist, false)
    }
}

fn expect_of(prog: &Prog, inp: &refint::Inputs, req: &Req, cyclic: bool) -> Option<Expect> {
    if cyclic {
        match req {
            Req::Node(n) => cyc_expect("C12", prog, inp, *n),
            _ => None,
        }
    } else if matches!(req, Req::Entries) {
        None
    } else {
        Some(refint::expect_req(prog, inp, req))
    }
}

/// Reads the actual field values back through the public getters and re-synchronises the model
/// (used after a write that panicked: it may or may not have been applied).
fn resync_inputs(r: &mut Runner) {
    let cells = r.ctx.cells.get().unwrap().clone();
    for (i, c) in cells.iter().enumerate() {
        r.inp.cells[i][0] = c.a(&r.world);
        r.inp.cells[i][1] = c.b(&r.world);
    }
}

struct RunOut {
    fired: bool,
    fired_site: u64,
    steps: u64,
    violations: Vec<String>,
    known: Option<&'static str>,
    counts: Counts,
}

/// Replays `hist` with a panic armed at user-code step `at` (0 = count only).
fn run_with_fault(prog: &Prog, hist: &[Step], cyclic: bool, at: u64) -> RunOut {
    let mut out = RunOut {
        fired: false,
        fired_site: u64::MAX,
        steps: 0,
        violations: vec![],
        known: None,
        counts: Counts::default(),
    };
    let mut runner = Runner::new(prog, true);
    let nn = prog.nodes.len() as u64;
    runner
        .ctx
        .step_bound
        .store(4 * 200 * (nn + 2).pow(2), Ordering::Relaxed);
    runner.ctx.fault.arm(ALL_SITES, at);
    let mut fired_at_step: Option<usize> = None;
    let mut fault_rev: Option<u64> = None;
    for (si, step) in hist.iter().enumerate() {
        let armed = runner.ctx.fault.counting.load(Ordering::Relaxed) && at != 0 && fired_at_step.is_none();
        match step {
            Step::Req(req) => {
                let got = runner.request(req);
                let injected = matches!(&got, Outcome::Panic(PanicClass::Injected, _));
                let fired_now = armed && runner.ctx.fault.fired_site.load(Ordering::Relaxed) != u64::MAX;
                if fired_now {
                    fired_at_step = Some(si);
                    fault_rev = Some(runner.world.rev());
                    out.fired = true;
                    out.fired_site = runner.ctx.fault.fired_site.load(Ordering::Relaxed);
                    runner.ctx.fault.disarm();
                    if !injected {
                        // the panic must reach the caller: no result of the interrupted computation
                        // may be returned. Exception: a panic raised while salsa runs user code on
                        // behalf of *dropping* a value cannot occur here (no Drop site), and event
                        // callbacks run inside the request, so every site is inside the call.
                        out.violations.push(format!(
                            "step {si}: injected panic at site {} was swallowed: request {req:?} returned {got:?}",
                            FSITE_NAMES[out.fired_site as usize]
                        ));
                        break;
                    }
                    // ---- recovery, same revision
                    let again = runner.request(req);
                    let exp = expect_of(prog, &runner.inp, req, cyclic);
                    let same_rev_ok = match (&exp, &again) {
                        (_, Outcome::Panic(PanicClass::Propagated, _)) if cyclic => true,
                        (Some(e), g) => outcome_matches(e, g),
                        (None, Outcome::Panic(PanicClass::Injected, _)) => false,
                        (None, _) => true,
                    };
                    if !same_rev_ok {
                        out.violations.push(format!(
                            "step {si}: after the injected panic (site {}) was disarmed, repeating request {req:?} in the same revision returned {again:?}, reference says {exp:?}",
                            FSITE_NAMES[out.fired_site as usize]
                        ));
                        break;
                    }
                    out.counts.inc("recovered_same_revision");
                    continue;
                }
                if injected {
                    out.violations.push(format!(
                        "step {si}: request {req:?} failed with an injected-fault panic although no fault fired in it"
                    ));
                    break;
                }
                if cyclic
                    && fault_rev == Some(runner.world.rev())
                    && matches!(got, Outcome::Panic(PanicClass::Propagated, _))
                {
                    // fixpoint functions poisoned by the panic stay poisoned for the rest of the revision
                    out.counts.inc("propagated_in_fault_revision");
                    continue;
                }
                if let Some(e) = expect_of(prog, &runner.inp, req, cyclic) {
                    if !outcome_matches(&e, &got) {
                        let phase = if fired_at_step.is_some() { "after recovery" } else { "before the fault" };
                        out.violations.push(format!(
                            "step {si} ({phase}): request {req:?} at rev {} returned {got:?}, reference says {e:?} (inputs {:?})",
                            runner.world.rev(),
                            runner.inp.cells
                        ));
                        break;
                    }
                }
            }
            w => {
                let before = runner.violations.len();
                let _ = runner.write(w);
                let fired_now = armed && runner.ctx.fault.fired_site.load(Ordering::Relaxed) != u64::MAX;
                if fired_now {
                    // a panic in the event callback during a write: the write may or may not have
                    // happened; the caller saw the panic. Re-read the inputs.
                    fired_at_step = Some(si);
                    out.fired = true;
                    out.fired_site = runner.ctx.fault.fired_site.load(Ordering::Relaxed);
                    runner.ctx.fault.disarm();
                    runner.violations.truncate(before);
                    resync_inputs(&mut runner);
                    out.counts.inc("fault_in_write");
                } else if runner.violations.len() > before {
                    out.violations.extend(runner.violations.drain(before..));
                    break;
                }
            }
        }
        if fired_at_step == Some(si) || (fired_at_step.is_some() && fired_at_step.map(|f| f + 1) == Some(si)) {
            // new revision after the fault, then everything must be computable and correct
        }
    }
    out.steps = runner.ctx.fault.disarm();
    if out.violations.is_empty() && out.fired {
        // ---- recovery in a later revision: every node must be computable and correct
        runner.write(&Step::Synth(Dur::Low));
        for n in 0..prog.nodes.len() {
            let req = match prog.nodes[n].kind {
                Kind::Multi => Req::Multi(n, 0),
                _ => Req::Node(n),
            };
            let got = runner.request(&req);
            if let Some(e) = expect_of(prog, &runner.inp, &req, cyclic) {
                if !outcome_matches(&e, &got) {
                    out.violations.push(format!(
                        "in the revision after the injected panic (site {}), request {req:?} returned {got:?}, reference says {e:?} (inputs {:?})",
                        FSITE_NAMES[out.fired_site as usize],
                        runner.inp.cells
                    ));
                    break;
                }
            }
        }
        if out.violations.is_empty() {
            out.counts.inc("recovered_next_revision");
        }
        let an = runner.quiescent_anomalies();
        if !an.is_empty() {
            out.counts.inc("h3_anomalies");
        }
    }
    // classification of known findings
    if !out.violations.is_empty() {
        let log = runner.take_log();
        out.known = classify_fault(&out, &log);
    }
    crate::sink::clear();
    out
}

/// Exact classes of known_findings.json: (injection site, salsa call path, first failure message class).
fn classify_fault(out: &RunOut, _log: &[Stamped]) -> Option<&'static str> {
    classify_fault_msg(out.fired_site, &out.violations.join(" | "))
}

pub fn classify_fault_msg(site: u64, msg: &str) -> Option<&'static str> {
    if site == FSite::Eq as u64 && msg.contains("two concurrent writers to") {
        return Some("C22/tracked_struct_update_eq_panic/leaves_write_lock");
    }
    if site == FSite::EvDiscard as u64
        && (msg.contains("cannot delete write-locked id")
            || msg.contains("cannot delete read-locked id")
            || msg.contains("two concurrent writers to"))
    {
        return Some("C22/event_panic_in_diff_outputs/partial_delete");
    }
    if site == FSite::KeyHash as u64 && msg.contains("interned value in LRU so must be in key_map") {
        return Some("C22/key_hash_panic_during_key_map_rehash/lru_entry_missing");
    }
    None
}

pub fn fault_case(o: &Opts, case_seed: u64) -> CaseReport {
    let mut rng = Rng::new(case_seed);
    let (prog, hist, cyclic) = gen_fault_case(&mut rng);
    let mut rep = CaseReport::new();
    rep.sample = format!("PROG {prog} HISTORY {}", fmt_history(&hist));
    rep.sig = hash_str(&rep.sample);
    // run 0: count
    let base = run_with_fault(&prog, &hist, cyclic, 0);
    if !base.violations.is_empty() {
        // fault-free run already deviates: not this property's business (C01/C12 checks own it)
        rep.counts.inc("baseline_deviates");
        return rep;
    }
    let n = base.steps;
    rep.counts.add("user_code_steps", n);
    let limit: u64 = std::env::var("SVH_FAULT_POINTS")
        .ok()
        .and_then(|s| s.parse().ok())
        .unwrap_or(if o.tier == "thorough" { 400 } else { 120 });
    let points: Vec<u64> = if n <= limit {
        rep.counts.inc("cases_enumerated_exhaustively");
        (1..=n).collect()
    } else {
        let mut v: Vec<u64> = (0..limit).map(|_| 1 + rng.below(n as usize) as u64).collect();
        v.sort();
        v.dedup();
        v
    };
    let mut sites_seen = [0u64; 15];
    for at in points {
        let r = run_with_fault(&prog, &hist, cyclic, at);
        rep.extra_evals += 1;
        rep.counts.merge(&r.counts);
        if r.fired {
            rep.counts.inc("faults_fired");
            sites_seen[r.fired_site as usize] += 1;
            rep.counts.inc(&format!("site:{}", FSITE_NAMES[r.fired_site as usize]));
        } else {
            rep.counts.inc("faults_not_reached");
        }
        if !r.violations.is_empty() {
            let sig = r.known.map(|s| format!(" [sig:{s}]")).unwrap_or_default();
            rep.violations.push(format!(
                "injection point {at}/{n} (site {}): {}{sig}",
                if r.fired { FSITE_NAMES[r.fired_site as usize] } else { "-" },
                r.violations.join(" | ")
            ));
            rep.replay_extra = format!("fault point {at}");
            break;
        }
    }
    rep.nontrivial = sites_seen.iter().filter(|x| **x > 0).count() >= 2;
    rep.ilvs = vec![];
    rep
}
