//! Reference interpreter: evaluates a program from scratch on the current inputs,
//! without salsa and without memoization across requests. This is the main oracle.

use std::collections::{BTreeMap, BTreeSet, HashMap};

use crate::prog::*;

#[derive(Clone, Copy, PartialEq, Eq, Debug, Hash, PartialOrd, Ord)]
pub enum PanicClass {
    /// "dependency graph cycle"
    Cycle,
    /// "can only use `specify` on salsa structs created during the current tracked fn"
    SpecForeign,
    /// "cannot call `specify` twice"
    SpecTwice,
    /// "too many cycle iterations"
    TooMany,
    /// never-change write
    NeverChange,
    /// an injected fault
    Injected,
    /// Cancelled::PropagatedPanic
    Propagated,
    /// Cancelled::PendingWrite
    PendingWrite,
    /// Cancelled::Local
    Local,
    Other,
}

pub fn classify_panic(msg: &str) -> PanicClass {
    if msg.contains("dependency graph cycle") {
        PanicClass::Cycle
    } else if msg.contains("can only use `specify` on salsa structs") {
        PanicClass::SpecForeign
    } else if msg.contains("cannot call `specify` twice") {
        PanicClass::SpecTwice
    } else if msg.contains("too many cycle iterations") {
        PanicClass::TooMany
    } else if msg.contains("never-changing inputs cannot be mutated") {
        PanicClass::NeverChange
    } else if msg.contains("svh-injected-fault") {
        PanicClass::Injected
    } else if msg.contains("Cancelled::PropagatedPanic") {
        PanicClass::Propagated
    } else if msg.contains("Cancelled::PendingWrite") {
        PanicClass::PendingWrite
    } else if msg.contains("Cancelled::Local") {
        PanicClass::Local
    } else {
        PanicClass::Other
    }
}

pub type R = Result<u16, PanicClass>;

#[derive(Clone, Debug, Default)]
pub struct Inputs {
    pub cells: Vec<[u16; 2]>,
    pub unt: Vec<u16>,
}

#[derive(Clone, Copy, PartialEq, Eq, Debug, Hash, PartialOrd, Ord)]
pub enum Act {
    Node(NodeId, u16),
    OnEnt(NodeId, usize),
    Spec(NodeId, usize),
    OnSym(u16),
}

pub fn act_tag(a: Act) -> u32 {
    match a {
        Act::Node(n, arg) => (1 << 12) | ((n as u32 & 0x3f) << 4) | (arg as u32 & 0xf),
        // struct-keyed bodies cannot know (maker, position): class tag only
        Act::OnEnt(..) => 2 << 12,
        Act::Spec(..) => 3 << 12,
        Act::OnSym(_) => 4 << 12,
    }
}

#[derive(Clone, Debug, PartialEq, Eq)]
pub struct EntV {
    pub ident: u16,
    pub t0: u16,
    pub t1: u16,
    pub t2: u16,
    /// value specified by the creator for q_spec (None: computed)
    pub spec: Option<u16>,
    /// which MkEnt created it
    pub mk: usize,
}

#[derive(Clone, Debug, Default)]
pub struct ActInfo {
    pub value: Option<R>,
    pub pushes: Vec<u32>,
    pub children: Vec<Act>,
    pub interned: Vec<(Sym, u16)>,
    pub untracked: bool,
}

pub struct Interp<'a> {
    pub prog: &'a Prog,
    pub inp: &'a Inputs,
    pub acts: HashMap<Act, ActInfo>,
    pub makers: HashMap<NodeId, Result<Vec<EntV>, PanicClass>>,
    stack: Vec<Act>,
    /// total activations (bound against runaway recursion)
    pub steps: usize,
}

#[derive(Clone, Copy)]
struct Cx {
    arg: u16,
    ent: Option<(u16, u16, u16, u16)>,
    sym: u16,
}

impl<'a> Interp<'a> {
    pub fn new(prog: &'a Prog, inp: &'a Inputs) -> Self {
        Interp {
            prog,
            inp,
            acts: HashMap::new(),
            makers: HashMap::new(),
            stack: Vec::new(),
            steps: 0,
        }
    }

    fn cur(&mut self) -> Option<&mut ActInfo> {
        let a = *self.stack.last()?;
        self.acts.get_mut(&a)
    }

    fn child(&mut self, c: Act) {
        if let Some(info) = self.cur() {
            if !info.children.contains(&c) {
                info.children.push(c);
            }
        }
    }

    /// Evaluate an activation (memoized within this from-scratch evaluation, like a fresh db would).
    pub fn act(&mut self, a: Act) -> R {
        self.child(a);
        if let Some(info) = self.acts.get(&a) {
            if let Some(v) = info.value {
                return v;
            }
            // re-entered while executing: a cycle
            return Err(PanicClass::Cycle);
        }
        self.steps += 1;
        self.acts.insert(a, ActInfo::default());
        self.stack.push(a);
        let r = self.run(a);
        self.stack.pop();
        self.acts.get_mut(&a).unwrap().value = Some(r);
        r
    }

    fn run(&mut self, a: Act) -> R {
        match a {
            Act::Node(n, arg) => {
                let node = &self.prog.nodes[n];
                if node.kind == Kind::Maker {
                    let ents = self.maker(n)?;
                    Ok(ents.len() as u16)
                } else {
                    let body = node.body.clone();
                    self.eval(
                        &body,
                        Cx {
                            arg,
                            ent: None,
                            sym: 0,
                        },
                    )
                }
            }
            Act::OnEnt(m, i) => {
                let e = self.makers[&m].as_ref().unwrap()[i].clone();
                let body = self.prog.on_ent.clone();
                self.eval(
                    &body,
                    Cx {
                        arg: 0,
                        ent: Some((e.ident, e.t0, e.t1, e.t2)),
                        sym: 0,
                    },
                )
            }
            Act::Spec(m, i) => {
                let e = self.makers[&m].as_ref().unwrap()[i].clone();
                let body = self.prog.spec.clone();
                self.eval(
                    &body,
                    Cx {
                        arg: 0,
                        ent: Some((e.ident, e.t0, e.t1, e.t2)),
                        sym: 0,
                    },
                )
            }
            Act::OnSym(v) => {
                let body = self.prog.on_sym.clone();
                self.eval(
                    &body,
                    Cx {
                        arg: 0,
                        ent: None,
                        sym: v,
                    },
                )
            }
        }
    }

    /// Structs created by maker `m` (evaluates the maker as an activation).
    pub fn maker_ents(&mut self, m: NodeId) -> Result<Vec<EntV>, PanicClass> {
        self.act(Act::Node(m, 0))?;
        self.makers[&m].clone()
    }

    fn maker(&mut self, m: NodeId) -> Result<Vec<EntV>, PanicClass> {
        let r = self.maker_inner(m);
        self.makers.insert(m, r.clone());
        r
    }

    fn maker_inner(&mut self, m: NodeId) -> Result<Vec<EntV>, PanicClass> {
        let mks = self.prog.nodes[m].mk.clone();
        let cx = Cx {
            arg: 0,
            ent: None,
            sym: 0,
        };
        let mut out: Vec<EntV> = Vec::new();
        for (k, mk) in mks.iter().enumerate() {
            if self.eval(&mk.when, cx)? == 0 {
                continue;
            }
            let ident = self.eval(&mk.ident, cx)?;
            let t0 = self.eval(&mk.t0, cx)?;
            let t1 = self.eval(&mk.t1, cx)?;
            let t2 = self.eval(&mk.t2, cx)?;
            let mut ent = EntV {
                ident,
                t0,
                t1,
                t2,
                spec: None,
                mk: k,
            };
            let idx = out.len();
            let spec_on = match &mk.spec_when {
                Some(w) if mk.specify.is_some() => self.eval(w, cx)? != 0,
                _ => true,
            };
            if let (Some(se), true) = (&mk.specify, spec_on) {
                // partial result must be visible to a pre-read
                out.push(ent.clone());
                self.makers.insert(m, Ok(out.clone()));
                if mk.pre_read {
                    // the creator computes q_spec on its own struct first: computed value wins
                    self.act(Act::Spec(m, idx))?;
                }
                let v = self.eval(se, cx)?;
                if !mk.pre_read {
                    ent.spec = Some(v);
                    if mk.twice {
                        return Err(PanicClass::SpecTwice);
                    }
                }
                out.pop();
            }
            out.push(ent);
        }
        Ok(out)
    }

    fn ent_of(&mut self, m: NodeId, i: usize) -> Result<Option<EntV>, PanicClass> {
        let ents = self.maker_ents(m)?;
        Ok(ents.get(i).cloned())
    }

    fn eval(&mut self, e: &Expr, cx: Cx) -> R {
        Ok(match e {
            Expr::Const(c) => *c,
            Expr::In(c, f) => self.inp.cells[*c][*f],
            Expr::Call(n) => self.act(Act::Node(*n, 0))?,
            Expr::CallMulti(n, a) => {
                let a = self.eval(a, cx)?;
                self.act(Act::Node(*n, a))?
            }
            Expr::Arg => cx.arg,
            Expr::Untracked(c) => {
                if let Some(i) = self.cur() {
                    i.untracked = true;
                }
                self.inp.unt[*c]
            }
            Expr::If(c, t, f) => {
                if self.eval(c, cx)? != 0 {
                    self.eval(t, cx)?
                } else {
                    self.eval(f, cx)?
                }
            }
            Expr::Bin(op, a, b) => {
                let a = self.eval(a, cx)?;
                let b = self.eval(b, cx)?;
                op.apply(a, b)
            }
            Expr::EntField(m, i, f) => match self.ent_of(*m, *i)? {
                None => ABSENT,
                Some(e) => match f {
                    Fld::Ident => e.ident,
                    Fld::T0 => e.t0,
                    Fld::T1 => e.t1,
                    Fld::T2 => e.t2,
                },
            },
            Expr::OnEnt(m, i) => match self.ent_of(*m, *i)? {
                None => ABSENT,
                Some(_) => self.act(Act::OnEnt(*m, *i))?,
            },
            Expr::Spec(m, i) => match self.ent_of(*m, *i)? {
                None => ABSENT,
                Some(e) => match e.spec {
                    Some(v) => {
                        // assigned memo: no body, no children, but it is an edge
                        self.child(Act::Spec(*m, *i));
                        self.acts.entry(Act::Spec(*m, *i)).or_insert_with(|| ActInfo {
                            value: Some(Ok(v)),
                            ..ActInfo::default()
                        });
                        v
                    }
                    None => self.act(Act::Spec(*m, *i))?,
                },
            },
            Expr::SpecForeign(m, i) => match self.ent_of(*m, *i)? {
                None => ABSENT,
                Some(_) => return Err(PanicClass::SpecForeign),
            },
            Expr::SelfField(f) => {
                let (id, t0, t1, t2) = cx.ent.unwrap_or((0, 0, 0, 0));
                match f {
                    Fld::Ident => id,
                    Fld::T0 => t0,
                    Fld::T1 => t1,
                    Fld::T2 => t2,
                }
            }
            Expr::Intern(s, e) => {
                let v = self.eval(e, cx)?;
                if let Some(i) = self.cur() {
                    i.interned.push((*s, v));
                }
                v
            }
            Expr::OnSym(e) => {
                let v = self.eval(e, cx)?;
                if let Some(i) = self.cur() {
                    i.interned.push((Sym::K1, v));
                }
                self.act(Act::OnSym(v))?
            }
            Expr::SelfSym => cx.sym,
            Expr::PeekZ(n, m, g) => {
                let c = self.act(Act::Node(*n, 0))?;
                let g = self.eval(g, cx)?;
                if c == 0 {
                    (self.act(Act::Node(*m, 0))? & g) | g
                } else {
                    c | g
                }
            }
            Expr::PeekNZ(n, m, g) => {
                let c = self.act(Act::Node(*n, 0))?;
                let g = self.eval(g, cx)?;
                if c != 0 {
                    c | self.act(Act::Node(*m, 0))? | g
                } else {
                    g
                }
            }
            Expr::Acc(e) => {
                let v = self.eval(e, cx)?;
                let tag = self.stack.last().map(|a| act_tag(*a)).unwrap_or(0);
                if let Some(i) = self.cur() {
                    i.pushes.push((tag << 16) | v as u32);
                }
                v
            }
        })
    }

    /// Accumulated values of an activation: DFS pre-order over first-call order, each
    /// activation contributing once.
    pub fn accumulated(&self, root: Act) -> Vec<u32> {
        let mut out = Vec::new();
        let mut seen = BTreeSet::new();
        let mut stack = vec![root];
        while let Some(a) = stack.pop() {
            if !seen.insert(a) {
                continue;
            }
            if let Some(info) = self.acts.get(&a) {
                out.extend(info.pushes.iter().copied());
                for c in info.children.iter().rev() {
                    stack.push(*c);
                }
            }
        }
        out
    }
}

/// Expected outcome of a request on an acyclic program.
#[derive(Clone, Debug, PartialEq, Eq)]
pub enum Expect {
    Val(u16),
    List(Vec<u32>),
    Panic(PanicClass),
    /// any of these outcomes is acceptable
    OneOf(Vec<Expect>),
    /// live Ent structs as a sorted multiset of (ident,t0,t1,t2)
    Ents(Vec<(u32, u32)>),
}

pub fn expect_req(prog: &Prog, inp: &Inputs, req: &Req) -> Expect {
    expect_req_calls(prog, inp, req).0
}

/// Expected outcome plus the node activations a from-scratch evaluation performs.
pub fn expect_req_calls(prog: &Prog, inp: &Inputs, req: &Req) -> (Expect, Vec<(u32, u16)>) {
    let mut it = Interp::new(prog, inp);
    let r: Result<Expect, PanicClass> = (|| {
        Ok(match req {
            Req::Node(n) => Expect::Val(it.act(Act::Node(*n, 0))?),
            Req::Multi(n, a) => Expect::Val(it.act(Act::Node(*n, *a))?),
            Req::Accum(n) => {
                it.act(Act::Node(*n, 0))?;
                Expect::List(it.accumulated(Act::Node(*n, 0)))
            }
            Req::EntField(m, i, f) => Expect::Val(match it.maker_ents(*m)?.get(*i) {
                None => ABSENT,
                Some(e) => match f {
                    Fld::Ident => e.ident,
                    Fld::T0 => e.t0,
                    Fld::T1 => e.t1,
                    Fld::T2 => e.t2,
                },
            }),
            Req::OnEnt(m, i) => Expect::Val(match it.maker_ents(*m)?.get(*i) {
                None => ABSENT,
                Some(_) => it.act(Act::OnEnt(*m, *i))?,
            }),
            Req::Spec(m, i) => Expect::Val(match it.maker_ents(*m)?.get(*i).cloned() {
                None => ABSENT,
                Some(e) => match e.spec {
                    Some(v) => v,
                    None => it.act(Act::Spec(*m, *i))?,
                },
            }),
            Req::Intern(_, v) => Expect::Val(*v),
            Req::Entries => Expect::Ents(vec![]),
        })
    })();
    let mut calls: Vec<(u32, u16)> = it
        .acts
        .keys()
        .filter_map(|a| match a {
            Act::Node(n, arg) => Some((*n as u32, *arg)),
            _ => None,
        })
        .collect();
    calls.sort();
    match r {
        Ok(e) => (e, calls),
        Err(p) => (Expect::Panic(p), calls),
    }
}

// ---------------- cyclic programs ----------------

/// Input-determined call graph (conditions of `If` in cyclic programs read inputs only).
pub fn call_edges(prog: &Prog, inp: &Inputs) -> Vec<Vec<NodeId>> {
    fn cond_value(e: &Expr, inp: &Inputs) -> Option<u16> {
        Some(match e {
            Expr::Const(c) => *c,
            Expr::In(c, f) => inp.cells[*c][*f],
            Expr::Bin(op, a, b) => op.apply(cond_value(a, inp)?, cond_value(b, inp)?),
            _ => return None,
        })
    }
    fn walk(e: &Expr, inp: &Inputs, out: &mut Vec<NodeId>) {
        match e {
            Expr::Call(n) => {
                if !out.contains(n) {
                    out.push(*n)
                }
            }
            Expr::If(c, t, f) => {
                walk(c, inp, out);
                match cond_value(c, inp) {
                    Some(0) => walk(f, inp, out),
                    Some(_) => walk(t, inp, out),
                    None => {
                        walk(t, inp, out);
                        walk(f, inp, out);
                    }
                }
            }
            Expr::Bin(_, a, b) => {
                walk(a, inp, out);
                walk(b, inp, out);
            }
            Expr::PeekZ(n, m, _) | Expr::PeekNZ(n, m, _) => {
                for x in [n, m] {
                    if !out.contains(x) {
                        out.push(*x)
                    }
                }
            }
            _ => {}
        }
    }
    prog.nodes
        .iter()
        .map(|n| {
            let mut out = Vec::new();
            walk(&n.body, inp, &mut out);
            out
        })
        .collect()
}

/// Tarjan SCC; returns component index per node and whether the component is cyclic.
pub fn sccs(edges: &[Vec<NodeId>]) -> (Vec<usize>, Vec<bool>) {
    let n = edges.len();
    let mut index = vec![usize::MAX; n];
    let mut low = vec![0; n];
    let mut on = vec![false; n];
    let mut st = Vec::new();
    let mut comp = vec![usize::MAX; n];
    let mut cyc = Vec::new();
    let mut next = 0;
    fn go(
        v: usize,
        edges: &[Vec<NodeId>],
        index: &mut Vec<usize>,
        low: &mut Vec<usize>,
        on: &mut Vec<bool>,
        st: &mut Vec<usize>,
        comp: &mut Vec<usize>,
        cyc: &mut Vec<bool>,
        next: &mut usize,
    ) {
        index[v] = *next;
        low[v] = *next;
        *next += 1;
        st.push(v);
        on[v] = true;
        for &w in &edges[v] {
            if index[w] == usize::MAX {
                go(w, edges, index, low, on, st, comp, cyc, next);
                low[v] = low[v].min(low[w]);
            } else if on[w] {
                low[v] = low[v].min(index[w]);
            }
        }
        if low[v] == index[v] {
            let c = cyc.len();
            let mut members = Vec::new();
            loop {
                let w = st.pop().unwrap();
                on[w] = false;
                comp[w] = c;
                members.push(w);
                if w == v {
                    break;
                }
            }
            let cyclic = members.len() > 1 || edges[v].contains(&v);
            cyc.push(cyclic);
        }
    }
    for v in 0..n {
        if index[v] == usize::MAX {
            go(
                v, edges, &mut index, &mut low, &mut on, &mut st, &mut comp, &mut cyc, &mut next,
            );
        }
    }
    (comp, cyc)
}

pub fn reachable(edges: &[Vec<NodeId>], from: NodeId) -> BTreeSet<NodeId> {
    let mut seen = BTreeSet::new();
    let mut st = vec![from];
    while let Some(v) = st.pop() {
        if seen.insert(v) {
            st.extend(edges[v].iter().copied());
        }
    }
    seen
}

fn eval_with(e: &Expr, inp: &Inputs, vals: &[u16]) -> u16 {
    match e {
        Expr::Const(c) => *c,
        Expr::In(c, f) => inp.cells[*c][*f],
        Expr::Call(n) => vals[*n],
        Expr::If(c, t, f) => {
            if eval_with(c, inp, vals) != 0 {
                eval_with(t, inp, vals)
            } else {
                eval_with(f, inp, vals)
            }
        }
        Expr::Bin(op, a, b) => op.apply(eval_with(a, inp, vals), eval_with(b, inp, vals)),
        Expr::PeekZ(n, _, g) => vals[*n] | eval_with(g, inp, vals),
        Expr::PeekNZ(n, m, g) => {
            if vals[*n] != 0 {
                vals[*n] | vals[*m] | eval_with(g, inp, vals)
            } else {
                eval_with(g, inp, vals)
            }
        }
        _ => 0,
    }
}

pub fn eval_with_pub(e: &Expr, inp: &Inputs, vals: &[u16]) -> u16 {
    eval_with(e, inp, vals)
}

/// Kleene iteration from bottom (simultaneous). `None` if it does not stabilise within `cap` rounds.
pub fn lfp_kleene(prog: &Prog, inp: &Inputs, cap: usize) -> Option<Vec<u16>> {
    let n = prog.nodes.len();
    let mut vals = vec![0u16; n];
    for _ in 0..cap {
        let mut next = vals.clone();
        for i in 0..n {
            next[i] = eval_with(&prog.nodes[i].body, inp, &vals);
        }
        if next == vals {
            return Some(vals);
        }
        vals = next;
    }
    None
}

/// Independent second solver: chaotic worklist iteration (Gauss-Seidel order, reversed),
/// joining with the previous value. For monotone systems it yields the same least fixpoint.
pub fn lfp_worklist(prog: &Prog, inp: &Inputs, cap: usize) -> Option<Vec<u16>> {
    let n = prog.nodes.len();
    let edges = call_edges(prog, inp);
    let mut rev: Vec<Vec<usize>> = vec![vec![]; n];
    for (a, es) in edges.iter().enumerate() {
        for &b in es {
            rev[b].push(a);
        }
    }
    let mut vals = vec![0u16; n];
    let mut work: Vec<usize> = (0..n).rev().collect();
    let mut steps = 0;
    while let Some(i) = work.pop() {
        steps += 1;
        if steps > cap * n.max(1) * 4 {
            return None;
        }
        let v = eval_with(&prog.nodes[i].body, inp, &vals);
        if v != vals[i] {
            vals[i] = v;
            for &d in &rev[i] {
                if !work.contains(&d) {
                    work.push(d);
                }
            }
            if edges[i].contains(&i) && !work.contains(&i) {
                work.push(i);
            }
        }
    }
    Some(vals)
}

/// Values for an all-`Fb` program: members of cyclic SCCs return their fallback, the rest
/// their body's value (evaluated over the condensation in dependency order).
pub fn fallback_values(prog: &Prog, inp: &Inputs) -> Vec<u16> {
    fallback_values_with(prog, inp, &BTreeMap::new())
}

/// Like `fallback_values`, but cycle members listed in `over` hold the given value instead of
/// their fallback (used only to *classify* an already detected mismatch, never as an oracle).
pub fn fallback_values_with(prog: &Prog, inp: &Inputs, over: &BTreeMap<usize, u16>) -> Vec<u16> {
    let edges = call_edges(prog, inp);
    let (comp, cyc) = sccs(&edges);
    let n = prog.nodes.len();
    let mut vals = vec![0u16; n];
    let mut done = vec![false; n];
    for i in 0..n {
        if cyc[comp[i]] {
            vals[i] = over.get(&i).copied().unwrap_or(prog.nodes[i].fb);
            done[i] = true;
        }
    }
    fn go(i: usize, prog: &Prog, inp: &Inputs, edges: &[Vec<usize>], vals: &mut Vec<u16>, done: &mut Vec<bool>) {
        if done[i] {
            return;
        }
        for &d in &edges[i] {
            go(d, prog, inp, edges, vals, done);
        }
        vals[i] = eval_with(&prog.nodes[i].body, inp, vals);
        done[i] = true;
    }
    for i in 0..n {
        go(i, prog, inp, &edges, &mut vals, &mut done);
    }
    vals
}

/// Classification of a request on a cyclic program mixing recovering and plain nodes.
#[derive(Clone, Debug, PartialEq, Eq)]
pub struct CycInfo {
    /// reachable set contains a cyclic SCC made only of Plain nodes: must panic
    pub must_panic: bool,
    /// reachable set contains a cyclic SCC with some (not all) Plain nodes: may panic
    pub may_panic: bool,
    pub in_cycle: bool,
    pub nested: bool,
}

pub fn cyc_info(prog: &Prog, inp: &Inputs, req: NodeId) -> CycInfo {
    let edges = call_edges(prog, inp);
    let (comp, cyc) = sccs(&edges);
    let reach = reachable(&edges, req);
    let mut by_comp: BTreeMap<usize, Vec<usize>> = BTreeMap::new();
    for &v in &reach {
        by_comp.entry(comp[v]).or_default().push(v);
    }
    let mut must = false;
    let mut may = false;
    let mut in_cycle = false;
    let mut nested = false;
    for (c, members) in &by_comp {
        if !cyc[*c] {
            continue;
        }
        in_cycle = true;
        // all members of an SCC are reachable once one is
        let all: Vec<usize> = (0..prog.nodes.len()).filter(|&v| comp[v] == *c).collect();
        let plain = all
            .iter()
            .filter(|&&v| prog.nodes[v].kind == Kind::Plain || prog.nodes[v].kind == Kind::NoEq)
            .count();
        if plain == all.len() {
            must = true;
        } else if plain > 0 {
            may = true;
        }
        // nested: more than one simple cycle through the component (approx: edges > nodes)
        let internal_edges: usize = all
            .iter()
            .map(|&v| edges[v].iter().filter(|w| comp[**w] == *c).count())
            .sum();
        if internal_edges > all.len() {
            nested = true;
        }
        let _ = members;
    }
    CycInfo {
        must_panic: must,
        may_panic: may,
        in_cycle,
        nested,
    }
}
