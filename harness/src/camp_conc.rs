//! Concurrent campaigns: case generation per property, per-iteration monitors, and the two
//! drivers (shuttle schedule fuzzing / OS threads with failpoint delays).

use std::collections::{BTreeMap, BTreeSet, HashMap};
use std::sync::{Arc, Mutex as StdMutex};

use crate::camp::{CaseReport, Opts};
use crate::camp_single::{cyc_cfg, cyc_expect, gen_cfg};
use crate::conc::*;
use crate::log::*;
use crate::mon;
use crate::prog::*;
use crate::refint::{self, Expect, PanicClass};
use crate::single::outcome_matches;
use crate::util::*;

/// Which workload family a property's concurrent run uses.
fn family(prop: &str) -> &'static str {
    match prop {
        "C16" | "C17" | "C11" => "acyclic",
        "C08" | "C09" => "intern",
        "C18" => "cyclic",
        "C14" => "cycpanic",
        "C19" => "mixed",
        "C20" => "writer",
        "C21" => "cancel",
        "C24" => "create",
        "C22" => "faultwait",
        "C23" => "mixed",
        _ => "acyclic",
    }
}

pub fn gen_case(prop: &str, rng: &mut Rng) -> ConcCase {
    // Under shuttle only unwind-free workloads are meaningful: shuttle models a panic that
    // unwinds through a mutex guard as lock poisoning and stops providing mutual exclusion for
    // that mutex afterwards, which parking_lot (the real build) does not do. Cycle panics and
    // cancellation (both are unwinds through salsa's claim guards) therefore run on OS threads.
    let fam = match family(prop) {
        "mixed" if cfg!(feature = "shuttle") => *rng.pick(&["acyclic", "cyclic", "cyclic"]),
        "mixed" if prop == "C23" => *rng.pick(&["churn", "churn", "acyclic", "cyclic", "cycpanic", "writer", "cancel"]),
        "mixed" => *rng.pick(&["acyclic", "cyclic", "cyclic", "cycpanic", "writer", "cancel"]),
        f => f,
    };
    match fam {
        "cyclic" | "cycpanic" => gen_cyclic_case(if fam == "cyclic" { "C12" } else { "C14" }, rng, prop),
        "writer" => gen_writer_case(rng),
        "cancel" => gen_cancel_case(rng),
        "create" => gen_create_case(rng),
        "churn" => gen_acyclic_case_w("C01", rng, false, false, 3),
        "faultwait" => {
            // few nodes, every thread asks for overlapping functions right after a write, so that
            // one thread computes while the other waits
            let mut c = gen_acyclic_case("C01", rng, false, false);
            c.threads.truncate(2);
            c.fault_at = Some(0);
            c
        }
        "intern" => gen_acyclic_case("C07", rng, true, false),
        _ => gen_acyclic_case(if prop == "C11" { "C11" } else { "C01" }, rng, false, prop == "C11"),
    }
}

fn all_reqs(prog: &Prog, cfg: &GenCfg, rng: &mut Rng, accum: bool) -> Vec<Req> {
    let mut v: Vec<Req> = (0..prog.nodes.len()).map(|n| node_req(prog, n)).collect();
    if accum {
        for n in 0..prog.nodes.len() {
            v.push(Req::Accum(n));
        }
    }
    for s in &cfg.intern {
        for x in 0..3 {
            v.push(Req::Intern(*s, x));
        }
    }
    let makers: Vec<usize> = (0..prog.nodes.len())
        .filter(|&i| prog.nodes[i].kind == Kind::Maker)
        .collect();
    for m in makers {
        v.push(Req::OnEnt(m, rng.below(2)));
        v.push(Req::EntField(m, rng.below(2), Fld::T0));
    }
    v
}

fn gen_acyclic_case(base: &str, rng: &mut Rng, intern_heavy: bool, accum: bool) -> ConcCase {
    gen_acyclic_case_w(base, rng, intern_heavy, accum, 1)
}

/// Directed struct churn: 2-3 makers, each switched on/off by its own input cell, functions keyed
/// by their structs (two function ingredients share the struct type, so the structs' memo tables
/// have several entries). The pre-history memoizes everything, then flips the switches at once, so
/// that in the parallel phase one thread discards structs together with their memos while another
/// creates structs of the same type (re-using the slots just freed) and memoizes functions on them.
fn gen_delcreate_case(rng: &mut Rng) -> ConcCase {
    let k = rng.range(2, 3);
    let b = |e: Expr| Box::new(e);
    let mut nodes: Vec<Node> = Vec::new();
    for j in 0..k {
        let mut mk = Vec::new();
        for i in 0..rng.range(1, 2) {
            mk.push(MkEnt {
                when: Expr::In(j, 0),
                ident: Expr::Bin(Op::Add(2), b(Expr::Const(rng.below(2) as u16)), b(Expr::Const(0))),
                t0: if rng.chance(1, 2) { Expr::In(j, 1) } else { Expr::Const(i as u16) },
                t1: Expr::Const(rng.below(3) as u16),
                t2: Expr::Const(0),
                specify: None,
                spec_when: None,
                pre_read: false,
                twice: false,
            });
        }
        nodes.push(Node {
            kind: Kind::Maker,
            body: Expr::Const(0),
            mk,
            fb: 0,
            lru_maker: false,
            lru_fix: false,
        });
    }
    let plain = |body: Expr| Node {
        kind: Kind::Plain,
        body,
        mk: vec![],
        fb: 0,
        lru_maker: false,
        lru_fix: false,
    };
    for j in 0..k {
        nodes.push(plain(Expr::OnEnt(j, 0)));
        match rng.below(3) {
            0 => nodes.push(plain(Expr::Spec(j, 0))),
            1 => nodes.push(plain(Expr::Bin(Op::Add(97), b(Expr::OnEnt(j, 1)), b(Expr::Spec(j, 0))))),
            _ => nodes.push(plain(Expr::EntField(j, 0, Fld::T0))),
        }
    }
    let first_plain = k;
    let np = nodes.len();
    if rng.chance(1, 2) {
        let (x, y) = (rng.range(first_plain, np - 1), rng.range(first_plain, np - 1));
        nodes.push(plain(Expr::Bin(Op::Add(97), b(Expr::Call(x)), b(Expr::Call(y)))));
    }
    let prog = Prog {
        nodes,
        ncells: k,
        nunt: 0,
        on_ent: Expr::Bin(Op::Add(97), b(Expr::SelfField(Fld::Ident)), b(Expr::SelfField(Fld::T0))),
        on_sym: Expr::Const(0),
        spec: Expr::Bin(Op::Add(89), b(Expr::SelfField(Fld::T1)), b(Expr::Const(7))),
    };
    let set = |c: usize, f: usize, v: u16| Step::Set { cell: c, field: f, val: v, dur: None };
    // switches: at least one maker on and one off, then all (or all but one) are flipped
    let mut on: Vec<bool> = (0..k).map(|_| rng.chance(1, 2)).collect();
    on[0] = true;
    on[1] = false;
    let mut pre = Vec::new();
    for j in 0..k {
        pre.push(set(j, 0, on[j] as u16));
        pre.push(set(j, 1, rng.below(3) as u16));
    }
    for n in first_plain..prog.nodes.len() {
        pre.push(Step::Req(node_req(&prog, n)));
    }
    let keep = if k > 2 && rng.chance(1, 3) { Some(rng.range(2, k - 1)) } else { None };
    for j in 0..k {
        if Some(j) != keep {
            pre.push(set(j, 0, !on[j] as u16));
        }
    }
    let nt = rng.range(2, 4);
    let same_struct = rng.chance(1, 2);
    let mut threads = Vec::new();
    for t in 0..nt {
        let mut ops = Vec::new();
        // the first two threads start with "their" maker's functions: one deletes, one creates;
        // or (same_struct) both start with the two functions keyed by the struct that maker 1 is
        // about to create, so that two function ingredients meet on a brand-new struct
        if t < 2 {
            let n = if same_struct { first_plain + 2 + t } else { first_plain + 2 * t };
            ops.push(TOp::Req(node_req(&prog, n)));
        }
        for _ in 0..rng.range(1, 5) {
            if rng.chance(1, 3) {
                // ask for a struct-keyed function directly: a memo lost from the struct's memo
                // table shows as a second execution in the same revision
                ops.push(TOp::Req(Req::OnEnt(rng.below(k), 0)));
            } else {
                ops.push(TOp::Req(node_req(&prog, rng.range(first_plain, prog.nodes.len() - 1))));
            }
        }
        threads.push(ops);
    }
    ConcCase {
        prog,
        pre,
        threads,
        mode: Mode::Readers,
        post_all: true,
        fault_at: None,
    }
}

/// `churn_w`: the struct-churning sub-family is chosen with probability `churn_w`/3.
fn gen_acyclic_case_w(base: &str, rng: &mut Rng, intern_heavy: bool, accum: bool, churn_w: u32) -> ConcCase {
    // a third of the plain acyclic cases churn tracked structs: several makers, functions keyed by
    // the structs, and several writes at once before the parallel phase, so that one thread deletes
    // structs (and their memos) while another creates structs of the same type
    let churn = base == "C01" && rng.chance(churn_w, 3);
    if churn && rng.chance(1, 2) {
        return gen_delcreate_case(rng);
    }
    let base = if churn { *rng.pick(&["C06", "C07"]) } else { base };
    let mut cfg = gen_cfg(base, rng);
    cfg.entries_reqs = false;
    cfg.max_nodes = 7;
    cfg.hist_len = (4, 12);
    cfg.lru_makers = false;
    if !intern_heavy {
        // no eviction in C16/C17 runs
        cfg.kinds.retain(|k| k.0 != Kind::Lru);
    }
    let prog = gen_prog(rng, &cfg);
    // pre-history: some requests, then a write, so that verification and execution paths both run
    let mut pre = Vec::new();
    if rng.chance(2, 3) {
        pre = gen_history(rng, &cfg, &prog);
        pre.truncate(rng.range(3, 12));
        for _ in 0..if churn { rng.range(1, 4) } else { 1 } {
            pre.push(Step::Set {
                cell: rng.below(prog.ncells),
                field: rng.below(2),
                val: rng.below(cfg.vmod as usize) as u16,
                dur: None,
            });
        }
    }
    let reqs = all_reqs(&prog, &cfg, rng, accum);
    let nt = rng.range(2, 4);
    let mut threads = Vec::new();
    for _ in 0..nt {
        let k = rng.range(2, 5);
        let mut ops = Vec::new();
        for _ in 0..k {
            if intern_heavy && rng.chance(1, 2) {
                let s = *rng.pick(&cfg.intern);
                ops.push(TOp::Req(Req::Intern(s, rng.below(3) as u16)));
            } else {
                ops.push(TOp::Req(rng.pick(&reqs).clone()));
            }
        }
        threads.push(ops);
    }
    ConcCase {
        prog,
        pre,
        threads,
        mode: Mode::Readers,
        post_all: true,
        fault_at: None,
    }
}

/// Directed nested-conditional cycle (fixpoint functions): `b` consults `a` only while `c` is at
/// bottom, so `b` leaves `a`'s cycle in a later iteration; `a` consults `s` only once `b` has left
/// bottom; `s` and `c` read `b`. Threads enter at `a`, `s`, `c`: one thread can be blocked on the
/// inner function while it drops out of the outer cycle and ownership moves.
fn gen_nested_conditional_case(rng: &mut Rng) -> ConcCase {
    let b = |e: Expr| Box::new(e);
    let mask = |rng: &mut Rng, c: usize| Expr::Bin(Op::And, b(Expr::In(c, rng.below(2))), b(Expr::Const(7)));
    let kind = |rng: &mut Rng| if rng.chance(1, 3) { Kind::FixJ } else { Kind::Fix };
    let node = |kind: Kind, body: Expr| Node {
        kind,
        body,
        mk: vec![],
        fb: 0,
        lru_maker: false,
        lru_fix: false,
    };
    // node numbering is shuffled so that ingredient / key order does not correlate with the roles
    let mut ids = [0usize, 1, 2, 3];
    for i in (1..4).rev() {
        ids.swap(i, rng.below(i + 1));
    }
    let (a, bb, c, s_) = (ids[0], ids[1], ids[2], ids[3]);
    let mut nodes: Vec<Option<Node>> = vec![None, None, None, None];
    let a_body = if rng.chance(1, 2) {
        Expr::PeekNZ(bb, s_, b(mask(rng, 0)))
    } else {
        // `s` is consulted only once `c` has left bottom, i.e. one iteration after `b` dropped out
        Expr::Bin(Op::Or, b(Expr::Call(bb)), b(Expr::PeekNZ(c, s_, b(mask(rng, 0)))))
    };
    nodes[a] = Some(node(kind(rng), a_body));
    nodes[bb] = Some(node(kind(rng), Expr::PeekZ(c, a, b(mask(rng, 1)))));
    let c_body = if rng.chance(1, 2) {
        Expr::Call(bb)
    } else {
        Expr::Bin(Op::Or, b(Expr::Call(bb)), b(mask(rng, 0)))
    };
    nodes[c] = Some(node(kind(rng), c_body));
    let s_body = if rng.chance(1, 2) {
        Expr::Bin(Op::Or, b(Expr::Call(bb)), b(mask(rng, 1)))
    } else {
        Expr::Bin(Op::Or, b(Expr::Call(bb)), b(Expr::Call(c)))
    };
    nodes[s_] = Some(node(kind(rng), s_body));
    let mut nodes: Vec<Node> = nodes.into_iter().map(|n| n.unwrap()).collect();
    if rng.chance(1, 3) {
        // an extra entry point above the outer head
        nodes.push(node(Kind::Fix, Expr::Bin(Op::Or, b(Expr::Call(a)), b(Expr::Call(s_)))));
    }
    let prog = Prog {
        nodes,
        ncells: 2,
        nunt: 0,
        on_ent: Expr::Const(0),
        on_sym: Expr::Const(0),
        spec: Expr::Const(0),
    };
    let mut pre = Vec::new();
    for cell in 0..2 {
        for f in 0..2 {
            pre.push(Step::Set { cell, field: f, val: rng.below(8) as u16, dur: None });
        }
    }
    let nt = rng.range(2, 3);
    let entry = [a, s_, c, bb];
    let mut threads = Vec::new();
    for t in 0..nt {
        let mut ops = vec![TOp::Req(Req::Node(entry[t]))];
        if rng.chance(1, 2) {
            ops.push(TOp::Req(Req::Node(rng.below(prog.nodes.len()))));
        }
        threads.push(ops);
    }
    ConcCase {
        prog,
        pre,
        threads,
        mode: Mode::Readers,
        post_all: true,
        fault_at: None,
    }
}

fn gen_cyclic_case(base: &str, rng: &mut Rng, prop: &str) -> ConcCase {
    // value-controlled callee sets of the second kind can run into known finding F18 (iteration
    // limit panic): an unwind, which shuttle cannot model (DESIGN.md section 6), so they are
    // generated for the OS-thread engine only
    let nz_ok = !cfg!(feature = "shuttle");
    if base == "C12" && rng.chance(1, 4) {
        return gen_nested_conditional_case(rng);
    }
    let base = if base == "C12" && rng.chance(1, 3) { "C13" } else { base };
    let mut cfg = cyc_cfg(base, rng);
    cfg.max_nodes = 5;
    PEEK_NZ.store((nz_ok && base == "C12") || peek_nz_env(), std::sync::atomic::Ordering::Relaxed);
    let prog = gen_prog(rng, &cfg);
    PEEK_NZ.store(peek_nz_env(), std::sync::atomic::Ordering::Relaxed);
    // programs with a value-controlled callee set of the second kind start from a fresh database
    let fresh_only = prog.nodes.iter().any(|n| crate::camp_single::has_peeknz(&n.body));
    let bits = cfg.cyclic.as_ref().map(|c| c.bits).unwrap_or(2);
    let mut pre = Vec::new();
    for c in 0..prog.ncells {
        for f in 0..2 {
            if rng.chance(1, 2) {
                pre.push(Step::Set {
                    cell: c,
                    field: f,
                    val: rng.below(1 << bits) as u16,
                    dur: None,
                });
            }
        }
    }
    // the `_changed` pattern: memos of an earlier revision exist (fixpoint programs only; for
    // cycle_result programs that pattern runs into known finding F4 in almost every case)
    let all_fix = prog.nodes.iter().all(|n| matches!(n.kind, Kind::Fix | Kind::FixJ));
    if all_fix && prop != "C14" && rng.chance(1, 4) && !fresh_only {
        for n in 0..prog.nodes.len() {
            if rng.chance(1, 2) {
                pre.push(Step::Req(Req::Node(n)));
            }
        }
        pre.push(Step::Set {
            cell: rng.below(prog.ncells),
            field: rng.below(2),
            val: rng.below(1 << bits) as u16,
            dur: None,
        });
    }
    let nt = rng.range(2, 3);
    let mut threads = Vec::new();
    for t in 0..nt {
        let k = rng.range(1, 3);
        let mut ops = Vec::new();
        for j in 0..k {
            // different threads enter at different members
            let n = (t + j * nt + rng.below(2)) % prog.nodes.len();
            ops.push(TOp::Req(Req::Node(n)));
        }
        threads.push(ops);
    }
    ConcCase {
        prog,
        pre,
        threads,
        mode: Mode::Readers,
        post_all: true,
        fault_at: None,
    }
}

fn gen_writer_case(rng: &mut Rng) -> ConcCase {
    let cyclic = rng.chance(1, 3);
    let (prog, vmax) = if cyclic {
        let mut cfg = cyc_cfg("C12", rng);
        cfg.max_nodes = 4;
        if let Some(c) = cfg.cyclic.as_mut() {
            c.peek = false;
            c.kinds = vec![(Kind::Fix, 1)];
        }
        let bits = cfg.cyclic.as_ref().unwrap().bits;
        (gen_prog(rng, &cfg), 1usize << bits)
    } else {
        let mut cfg = gen_cfg("C05", rng);
        cfg.max_nodes = 7;
        cfg.min_nodes = 3;
        cfg.untracked = false;
        (gen_prog(rng, &cfg), cfg.vmod as usize)
    };
    let mut pre = Vec::new();
    for n in 0..prog.nodes.len() {
        if rng.chance(1, 2) {
            pre.push(Step::Req(node_req(&prog, n)));
        }
    }
    let nw = rng.range(1, 3);
    let mut w = Vec::new();
    for _ in 0..nw {
        for _ in 0..rng.below(3) {
            w.push(TOp::Yield);
        }
        let step = match rng.below(10) {
            0..=5 => Step::Set {
                cell: rng.below(prog.ncells),
                field: rng.below(2),
                val: rng.below(vmax) as u16,
                dur: None,
            },
            6 => Step::Synth(Dur::Low),
            7 => Step::SetLru(rng.below(4)),
            _ => Step::Evict,
        };
        w.push(TOp::Write(step));
    }
    let mut threads = vec![w];
    for _ in 0..rng.range(1, 2) {
        let mut ops = Vec::new();
        for _ in 0..rng.range(2, 4) {
            ops.push(TOp::Req(node_req(&prog, rng.below(prog.nodes.len()))));
        }
        threads.push(ops);
    }
    ConcCase {
        prog,
        pre,
        threads,
        mode: Mode::WriterReaders,
        post_all: true,
        fault_at: None,
    }
}

fn gen_cancel_case(rng: &mut Rng) -> ConcCase {
    let cyclic = rng.chance(1, 3);
    let prog = if cyclic {
        let mut cfg = cyc_cfg("C12", rng);
        cfg.max_nodes = 4;
        if let Some(c) = cfg.cyclic.as_mut() {
            c.peek = false;
        }
        gen_prog(rng, &cfg)
    } else {
        let mut cfg = gen_cfg("C03", rng);
        cfg.max_nodes = 7;
        cfg.untracked = false;
        cfg.kinds.retain(|k| k.0 != Kind::Lru);
        // functions declared with cycle handling that never actually form a cycle: local
        // cancellation is disabled only while *they* execute
        cfg.kinds.push((Kind::Fix, 2));
        cfg.kinds.push((Kind::FixJ, 1));
        cfg.kinds.push((Kind::Fb, 1));
        cfg.makers = false;
        cfg.intern = vec![];
        gen_prog(rng, &cfg)
    };
    let nt = rng.range(2, 3);
    let mut threads = Vec::new();
    for _ in 0..nt {
        let mut ops = Vec::new();
        for _ in 0..rng.range(2, 4) {
            ops.push(TOp::Req(node_req(&prog, rng.below(prog.nodes.len()))));
        }
        threads.push(ops);
    }
    // the canceller
    let mut c = Vec::new();
    for _ in 0..rng.range(1, 3) {
        for _ in 0..rng.below(3) {
            c.push(TOp::Yield);
        }
        c.push(TOp::Cancel(rng.below(nt)));
    }
    threads.push(c);
    ConcCase {
        prog,
        pre: vec![],
        threads,
        mode: Mode::Readers,
        post_all: true,
        fault_at: None,
    }
}

fn gen_create_case(rng: &mut Rng) -> ConcCase {
    let mut cfg = gen_cfg("C06", rng);
    cfg.max_nodes = 5;
    cfg.lru_makers = false;
    let prog = gen_prog(rng, &cfg);
    let nt = rng.range(2, 4);
    let mut threads = Vec::new();
    for t in 0..nt {
        let mut ops = Vec::new();
        for j in 0..rng.range(4, 12) {
            match rng.below(5) {
                0 => ops.push(TOp::Req(node_req(&prog, rng.below(prog.nodes.len())))),
                4 if j > 0 => ops.push(TOp::Rehandle),
                1 => ops.push(TOp::Create(1, (rng.below(6)) as u16)),
                2 => ops.push(TOp::Create(2, (rng.below(6)) as u16)),
                _ => ops.push(TOp::Create(0, (t * 100 + j) as u16)),
            }
        }
        threads.push(ops);
    }
    ConcCase {
        prog,
        pre: vec![],
        threads,
        mode: Mode::Readers,
        post_all: false,
        fault_at: None,
    }
}

// --------------------------------------------------------------------------------------------
// per-iteration monitors

pub struct IterVerdict {
    pub violations: Vec<String>,
    pub counts: Counts,
    pub nontrivial: bool,
    pub ilv: u64,
}

fn is_cyclic_prog(prog: &Prog) -> bool {
    // acyclic generators only call lower-numbered nodes; cyclic ones call any node
    fn calls_up(e: &Expr, me: usize) -> bool {
        match e {
            Expr::Call(n) | Expr::CallMulti(n, _) => *n >= me,
            Expr::PeekZ(..) | Expr::PeekNZ(..) => true,
            Expr::If(a, b, c) => calls_up(a, me) || calls_up(b, me) || calls_up(c, me),
            Expr::Bin(_, a, b) => calls_up(a, me) || calls_up(b, me),
            Expr::Intern(_, a) | Expr::OnSym(a) | Expr::Acc(a) => calls_up(a, me),
            _ => false,
        }
    }
    prog.nodes
        .iter()
        .enumerate()
        .any(|(i, n)| n.kind != Kind::Maker && calls_up(&n.body, i))
}

fn expect_any(prop: &str, prog: &Prog, inp: &refint::Inputs, req: &Req, cyclic: bool) -> Option<Expect> {
    if cyclic {
        match req {
            Req::Node(n) => {
                let p = if prop == "C14" { "C14" } else { "C12" };
                cyc_expect(p, prog, inp, *n)
            }
            _ => None,
        }
    } else {
        Some(expect_for(prog, inp, req))
    }
}

pub fn check_iter(prop: &str, case: &ConcCase, res: &IterResult) -> IterVerdict {
    let mut v: Vec<String> = Vec::new();
    let mut c = mon::basic_stats(&res.log);
    let cyclic = is_cyclic_prog(&case.prog);
    let has_cancel = case
        .threads
        .iter()
        .any(|t| t.iter().any(|o| matches!(o, TOp::Cancel(_))));
    let writer = case.mode == Mode::WriterReaders;
    v.extend(res.write_violations.iter().cloned());
    v.extend(res.held_violations.iter().cloned());
    if prop == "C09" {
        // the retention model over the merged log of all threads (revisions do not change during
        // the parallel phase of this family)
        let (rv, rc) = crate::mon_misc::check_retention(&case.prog, &res.log, &res.ctx);
        v.extend(rv);
        c.merge(&rc);
    }
    c.add("held_handles_read_back", res.held_read_back);
    if res.stuck {
        v.push("threads made no progress (watchdog): see protocol trace analysis".into());
    }
    // ---- values per thread
    let mut panicked_cycle = false;
    let calls = if writer { top_calls(&res.log) } else { Vec::new() };
    let may_poison = case
        .prog
        .nodes
        .iter()
        .any(|n| matches!(n.kind, Kind::Fix | Kind::FixJ | Kind::Fb));
    // the k-th observation of a handle belongs to its k-th top-level call in the log
    let mut nth_obs: HashMap<usize, usize> = HashMap::new();
    for o in &res.obs {
        let k = {
            let e = nth_obs.entry(o.th).or_insert(0);
            *e += 1;
            *e - 1
        };
        let Some(inp) = inputs_for_rev(&res.inputs_at, o.rev) else { continue };
        let exp = expect_any(prop, &case.prog, inp, &o.req, cyclic);
        c.inc("thread_results");
        match (&o.out, &exp) {
            (Outcome::Panic(PanicClass::PendingWrite, _), _) if writer => {
                c.inc("cancelled_pending_write");
                continue;
            }
            (Outcome::Panic(PanicClass::Propagated, _), _)
                if writer
                    && calls
                        .get(o.th)
                        .and_then(|v| v.get(k))
                        .is_some_and(|tc| tc.req == o.req && tc.out.as_ref() == Some(&o.out))
                    && propagated_by_pending_write(&res.log, &calls, o.th, k, may_poison) =>
            {
                // the computation this reader was waiting for was cancelled by the pending write
                c.inc("propagated_from_cancelled_reader");
                continue;
            }
            (Outcome::Panic(PanicClass::Injected, _), _) if res.fault_fired => {
                c.inc("injected_panic_reached_caller");
                continue;
            }
            (Outcome::Panic(PanicClass::Propagated, _), _) if res.fault_fired => {
                // a thread that was waiting for the computation interrupted by the injected panic
                c.inc("waiter_released_with_propagated_panic");
                continue;
            }
            (Outcome::Panic(PanicClass::Local, _), _) if has_cancel => {
                c.inc("cancelled_local");
                continue;
            }
            (Outcome::Panic(PanicClass::Propagated, _), Some(e))
                if matches!(e, Expect::Panic(PanicClass::Cycle))
                    || matches!(e, Expect::OneOf(xs) if xs.contains(&Expect::Panic(PanicClass::Cycle))) =>
            {
                // a thread that waited on a computation which ended in a cycle panic
                c.inc("propagated_cycle_panics");
                panicked_cycle = true;
                continue;
            }
            (Outcome::Panic(PanicClass::Propagated, _), _) if panicked_cycle && cyclic => {
                c.inc("propagated_cycle_panics");
                continue;
            }
            (Outcome::Panic(_, m), _) if m.contains("svh-step-bound") => {
                v.push(format!(
                    "thread T{} request {:?} exceeded the step bound (unbounded re-execution)",
                    o.th, o.req
                ));
                continue;
            }
            _ => {}
        }
        if matches!(o.out, Outcome::Panic(PanicClass::Cycle, _)) {
            panicked_cycle = true;
            c.inc("cycle_panics");
        }
        match exp {
            Some(e) => {
                // a recovering head poisoned by an earlier cycle panic in this revision reports a
                // propagated panic; handled above
                if !outcome_matches(&e, &o.out) {
                    let late_ok = cyclic
                        && panicked_cycle
                        && matches!(o.out, Outcome::Panic(PanicClass::Propagated, _));
                    if !late_ok {
                        v.push(format!(
                            "thread T{} request {:?} at rev {} returned {:?}, reference says {:?} (inputs {:?})",
                            o.th, o.req, o.rev, o.out, e, inp.cells
                        ));
                    }
                }
            }
            None => c.inc("undecided_requests"),
        }
    }
    // ---- post phase (main handle, single-threaded, final inputs)
    let mut post_panicked = false;
    for (q, out) in &res.post {
        let exp = expect_any(prop, &case.prog, &res.final_inp, q, cyclic);
        if matches!(out, Outcome::Panic(..)) {
            post_panicked = true;
        }
        if let Some(e) = exp {
            let ok = outcome_matches(&e, out)
                || (cyclic
                    && (post_panicked || panicked_cycle)
                    && matches!(out, Outcome::Panic(PanicClass::Propagated, _)));
            if !ok {
                v.push(format!(
                    "after the parallel phase request {q:?} returned {out:?}, reference says {e:?} (inputs {:?})",
                    res.final_inp.cells
                ));
            }
        }
    }
    // value clauses belong to C16 / C18 / C14 / C20 / C21 / C11 / C24; the other checks only count them
    if matches!(prop, "C17" | "C19" | "C08" | "C09" | "C23") {
        let keep: Vec<String> = v
            .iter()
            .filter(|m| !m.contains("reference says"))
            .cloned()
            .collect();
        c.add("value_mismatches_not_judged_here", (v.len() - keep.len()) as u64);
        v = keep;
    }
    // ---- C17: at most one execution per key per revision
    if matches!(prop, "C17" | "C16") && !cyclic && !has_cancel {
        let mut seen: HashMap<(K, u64), u32> = HashMap::new();
        let mut rev = 1u64;
        for (_, _, r) in &res.log {
            match r {
                Rec::WriteDone(_, r2) => rev = *r2,
                Rec::Ev(Ev::WillExecute(k)) => {
                    let n = seen.entry((*k, rev)).or_insert(0);
                    *n += 1;
                    if *n == 2 && prop == "C17" {
                        v.push(format!(
                            "function body for key {k:?} executed twice in revision {rev} (no cycles, panics, cancellation or eviction involved)"
                        ));
                    }
                }
                _ => {}
            }
        }
        c.add("keys_executed", seen.len() as u64);
    }
    // ---- C08: interning canonical within a revision
    if matches!(prop, "C08" | "C24" | "C16") {
        let mut rev = 1u64;
        let mut by_val: HashMap<(u8, u16, u64), (u32, u32)> = HashMap::new();
        let mut by_id: HashMap<(u8, u32, u32), u16> = HashMap::new();
        for (_, _, r) in &res.log {
            match r {
                Rec::WriteDone(_, r2) => rev = *r2,
                Rec::Interned(t, val, idx, g) => {
                    c.inc("intern_observations");
                    if let Some(prev) = by_val.insert((*t, *val, rev), (*idx, *g)) {
                        if prev != (*idx, *g) {
                            v.push(format!(
                                "interning value {val} of type {t} in revision {rev} returned handle ({idx},{g}) and earlier ({},{})",
                                prev.0, prev.1
                            ));
                        } else {
                            c.inc("intern_same_handle_again");
                        }
                    }
                    if let Some(pv) = by_id.insert((*t, *idx, *g), *val) {
                        if pv != *val {
                            v.push(format!(
                                "handle ({idx},{g}) of interned type {t} stands for value {val} and for value {pv}"
                            ));
                        }
                    }
                }
                Rec::Read(ReadK::Interned(t, idx, g), back) => {
                    if let Some(val) = by_id.get(&(*t, *idx, *g)) {
                        if val != back {
                            v.push(format!(
                                "field read through handle ({idx},{g}) of interned type {t} returned {back}, interned value was {val}"
                            ));
                        }
                    }
                }
                _ => {}
            }
        }
    }
    // ---- C24: distinct identities, read-back
    if prop == "C24" {
        let mut ids: HashMap<(u8, u32), (u32, u16)> = HashMap::new();
        for (kind, idx, g, a, _b) in &res.created {
            c.inc("created");
            if *kind == 0 {
                if let Some(prev) = ids.insert((*kind, *idx), (*g, *a)) {
                    v.push(format!(
                        "two inputs created concurrently received the same identity slot {idx} (generations {} and {g}, first fields {} and {a})",
                        prev.0, prev.1
                    ));
                }
            }
        }
        for (_, _, r) in &res.log {
            if let Rec::Made(_, _, f, 9999, _) = r {
                // created with (kind, v): read back a == v (inputs: a = v, b = v + 1)
                if f[0] == 0 && (f[2] != f[1] || f[3] != f[1].wrapping_add(1)) {
                    v.push(format!("input created with fields ({}, {}) read back ({}, {})", f[1], f[1].wrapping_add(1), f[2], f[3]));
                }
                if f[0] != 0 && f[2] != f[1] {
                    v.push(format!("interned value created as {} read back {}", f[1], f[2]));
                }
            }
        }
        // tracked structs from makers: ids of live structs distinct per execution is checked by
        // the identity monitor
        let (iv, ic) = crate::mon_misc::check_identity(&case.prog, &res.log, &res.ctx);
        v.extend(iv);
        c.merge(&ic);
    }
    // ---- C20: ordering of writes and handle drops, cancellation rule
    let relaxed = crate::sink::RELAXED_CLOCK.load(std::sync::atomic::Ordering::Relaxed);
    if writer && !relaxed {
        let (wv, wc) = check_writer(&res.log);
        v.extend(wv);
        c.merge(&wc);
    }
    // ---- C21: local cancellation
    if has_cancel && !relaxed {
        let (cv, cc) = check_cancel(case, res);
        v.extend(cv);
        c.merge(&cc);
    }
    // ---- C19: protocol trace
    let ctxlog = &res.ctx.log;
    let tok = |t: u64| ctxlog.th_of_token(t);
    let (dv, dc) = crate::mon_dg::check(&res.log, &tok);
    if matches!(prop, "C19") || res.stuck {
        v.extend(dv);
    } else if !dv.is_empty() {
        c.inc("dg_violations_outside_c19");
    }
    c.merge(&dc);
    if !res.anomalies.is_empty() {
        c.inc("h3_anomalies");
        if v.is_empty() && prop == "C19" && !res.post.is_empty() {
            // follow-up requests (post phase) all matched: anomaly not observable
            c.inc("h3_anomalies_unconfirmed");
        }
    }
    let ilv = mon::interleaving_hash(&res.log);
    let nontrivial = match prop {
        "C16" | "C17" | "C11" => c.get("ev_block_on") > 0 || c.get("dg_block_on") > 0,
        "C08" => c.get("intern_same_handle_again") > 0,
        "C09" => c.get("retention_reuses_checked") > 0 || c.get("interned_identity_kept") > 0,
        "C18" => c.get("dg_transfer") > 0 || c.get("dg_block_on") > 0,
        "C14" => c.get("cycle_panics") + c.get("propagated_cycle_panics") > 0,
        "C19" => c.get("dg_block_on") > 0,
        "C20" => c.get("cancelled_pending_write") > 0 || c.get("writes") > 0,
        "C21" => c.get("cancelled_local") > 0,
        "C24" => c.get("created") > 0,
        "C22" => res.fault_fired,
        _ => true,
    };
    let _ = BTreeMap::<u8, u8>::new();
    let _ = BTreeSet::<u8>::new();
    IterVerdict {
        violations: v,
        counts: c,
        nontrivial,
        ilv,
    }
}

/// C20 (a) a write completes only after every clone taken before it has been dropped;
/// (b) once the cancellation flag is set, a reader that checks for cancellation does not emit
/// further salsa events before it unwinds.
fn check_writer(log: &[Stamped]) -> (Vec<String>, Counts) {
    let mut v = Vec::new();
    let mut c = Counts::default();
    // handle -> number of live clones (by log order)
    let mut live: HashMap<u32, i32> = HashMap::new();
    let mut in_write = false;
    let mut flag_at: Option<u64> = None;
    // per thread: saw a cancellation check after the flag
    let mut checked_after_flag: HashMap<u8, u64> = HashMap::new();
    for (clk, th, r) in log {
        match r {
            Rec::CloneHandle(h) => {
                *live.entry(*h).or_insert(0) += 1;
            }
            Rec::AfterDrop(h) => {
                *live.entry(*h).or_insert(0) -= 1;
            }
            Rec::WriteBegin(_) => {
                in_write = true;
                flag_at = None;
                checked_after_flag.clear();
            }
            Rec::Ev(Ev::DidSetCancellationFlag) => {
                flag_at = Some(*clk);
                c.inc("cancellation_flags");
            }
            Rec::WriteDone(..) => {
                // clones whose drop has not even *begun* (BeforeDrop not logged) must not exist;
                // AfterDrop may lag behind the writer's progress, so judge by BeforeDrop
                in_write = false;
                flag_at = None;
                c.inc("writes_checked");
            }
            Rec::Ev(Ev::WillCheckCancellation) => {
                if in_write && flag_at.is_some() && *th != 0 {
                    checked_after_flag.entry(*th).or_insert(*clk);
                }
            }
            Rec::Ev(e) => {
                if let Some(t0) = checked_after_flag.get(th) {
                    if in_write && *clk > *t0 && !matches!(e, Ev::WillCheckCancellation | Ev::DidSetCancellationFlag) {
                        v.push(format!(
                            "clock {clk}: reader thread t{th} emitted {e:?} after checking for cancellation at clock {t0} although the cancellation flag was set"
                        ));
                        break;
                    }
                }
            }
            Rec::Ret(..) => {
                checked_after_flag.remove(th);
            }
            _ => {}
        }
    }
    // (a) by construction of the log: between WriteBegin and WriteDone of the writer, every
    // clone that logged CloneHandle before WriteBegin must log BeforeDrop before WriteDone
    let mut open: HashMap<u32, Vec<u64>> = HashMap::new();
    let mut begin: Option<u64> = None;
    for (clk, _, r) in log {
        match r {
            Rec::CloneHandle(h) => open.entry(*h).or_default().push(*clk),
            Rec::BeforeDrop(h) => {
                open.entry(*h).or_default().pop();
            }
            Rec::WriteBegin(_) => begin = Some(*clk),
            Rec::WriteDone(..) => {
                if let Some(b) = begin {
                    for (h, cl) in &open {
                        if let Some(t) = cl.iter().find(|t| **t < b) {
                            v.push(format!(
                                "write (begun at clock {b}) completed at clock {clk} while the clone taken by T{h} at clock {t} had not started to be dropped"
                            ));
                        }
                    }
                }
                begin = None;
            }
            _ => {}
        }
    }
    (v, c)
}

/// One top-level call of a reader handle during the parallel phase, as recorded by the handle's own thread.
struct TopCall {
    call: u64,
    /// clock of the `Ret` record (u64::MAX if the call never returned)
    ret: u64,
    /// log thread index of the thread that made the call
    th: u8,
    req: Req,
    out: Option<Outcome>,
}

/// Per reader handle (index = handle number): its top-level calls in program order.
fn top_calls(log: &[Stamped]) -> Vec<Vec<TopCall>> {
    let mut calls: Vec<Vec<TopCall>> = Vec::new();
    for (c, th, r) in log {
        match r {
            Rec::Call(h, q) if *h > 0 => {
                let h = *h as usize;
                if calls.len() <= h {
                    calls.resize_with(h + 1, Vec::new);
                }
                calls[h].push(TopCall {
                    call: *c,
                    ret: u64::MAX,
                    th: *th,
                    req: q.clone(),
                    out: None,
                });
            }
            Rec::Ret(h, out) if *h > 0 => {
                if let Some(tc) = calls.get_mut(*h as usize).and_then(|v| v.last_mut()) {
                    if tc.out.is_none() {
                        tc.ret = *c;
                        tc.out = Some(out.clone());
                    }
                }
            }
            _ => {}
        }
    }
    calls
}

/// C20: is the `Cancelled::PropagatedPanic` that ended call `k` of handle `h` the consequence of a
/// pending write? Decided on records whose order is sound with respect to the real actions:
///  * `WriteBegin` is logged by the writer *before* it enters salsa and `WriteDone` after the write
///    returned, so "a write was in progress during the call" is `WriteBegin < Ret` and `WriteDone > Call`.
///    (salsa's `DidSetCancellationFlag` event is emitted *after* the flag is stored, so its record can be
///    stamped later than the `Ret` of a reader that has already been released by a cancelled reader: the
///    event record is not used here.)
///  * some *other* reader's call that overlaps this one was cancelled itself (`PendingWrite`, or
///    `PropagatedPanic` in a chain of waiters): every top-level record is written by the reader's own
///    thread around the real call, and a cancelled reader logs its `Ret` after it has released (or
///    poisoned) what this reader was waiting for.
///  * programs without cycle-recovering functions: `PropagatedPanic` is only thrown by a thread woken
///    from `block_on`, whose `WillBlockOn` event is emitted by that thread (under salsa's
///    dependency-graph lock) before it blocks. A function with cycle recovery (`cycle_fn` /
///    `cycle_result`) that is cancelled while executing leaves a poisoned memo, and a reader of the same
///    revision and cancellation epoch that claims the key afterwards answers `PropagatedPanic` without
///    ever blocking (`fetch_cold_cycle` / `previous_iteration`), whether or not the program has a cycle.
fn propagated_by_pending_write(log: &[Stamped], calls: &[Vec<TopCall>], h: usize, k: usize, may_poison: bool) -> bool {
    let Some(me) = calls.get(h).and_then(|v| v.get(k)) else { return false };
    // (a) a write in progress
    let mut begin: Option<u64> = None;
    let mut write_overlaps = false;
    for (c, _, r) in log {
        match r {
            Rec::WriteBegin(_) => begin = Some(*c),
            Rec::WriteDone(..) => {
                if let Some(b) = begin.take() {
                    if b < me.ret && *c > me.call {
                        write_overlaps = true;
                    }
                }
            }
            _ => {}
        }
    }
    if let Some(b) = begin {
        // a write that never returned
        if b < me.ret {
            write_overlaps = true;
        }
    }
    if !write_overlaps {
        return false;
    }
    // (b) no cycle-recovering function: this thread blocked on another thread during the call
    let first_block = log
        .iter()
        .find(|(c, th, r)| {
            *c > me.call && *c < me.ret && *th == me.th && matches!(r, Rec::Ev(Ev::WillBlockOn(..)))
        })
        .map(|(c, _, _)| *c);
    if !may_poison && first_block.is_none() {
        return false;
    }
    // (c) another reader's overlapping call was cancelled
    calls.iter().enumerate().any(|(oh, v)| {
        oh != h
            && v.iter().any(|tc| {
                tc.call < me.ret
                    && tc.ret > me.call
                    && matches!(
                        tc.out,
                        Some(Outcome::Panic(PanicClass::PendingWrite | PanicClass::Propagated, _))
                    )
            })
    })
}

/// C21: monitor over bracketed `Cancel`/`CancelDone` records and top-level calls. `cancel()` and
/// the token check are relaxed atomics and the token is wiped when the target's outermost call
/// ends, so a cancel racing with the end of a call may be lost or survive into the next call:
///  * a cancel is *dead* after call N of its target iff `cancel()` had returned before the last
///    record the target logged in call N (the wipe happens after that record);
///  * a `Cancelled::Local` failure is legitimate iff some cancel of that handle began before the
///    failure was logged and is not dead after an earlier call;
///  * strict: a cancel that began after the previous call's return was logged and returned before
///    the next call was logged must make that next call unwind (acyclic programs only: fixpoint
///    iteration disables local cancellation).
fn check_cancel(case: &ConcCase, res: &IterResult) -> (Vec<String>, Counts) {
    let mut v = Vec::new();
    let mut c = Counts::default();
    let cyclic = is_cyclic_prog(&case.prog);
    // per target handle: (begin, done)
    let mut cancels: HashMap<u32, Vec<(u64, u64)>> = HashMap::new();
    let mut open_cancel: HashMap<(u8, u32), u64> = HashMap::new();
    // per handle: calls (call clock, last record clock before ret, ret clock, outcome is Local, outcome is value)
    struct CallRec {
        call: u64,
        last_ev: u64,
        ret: u64,
        local: bool,
        value: bool,
    }
    let mut calls: HashMap<u32, Vec<CallRec>> = HashMap::new();
    let mut cur: HashMap<u8, (u32, u64, u64)> = HashMap::new(); // thread -> (handle, call clk, last clk)
    for (clk, th, r) in &res.log {
        match r {
            Rec::Cancel(t) => {
                open_cancel.insert((*th, *t + 1), *clk);
                c.inc("cancels");
            }
            Rec::CancelDone(t) => {
                if let Some(b) = open_cancel.remove(&(*th, *t + 1)) {
                    cancels.entry(*t + 1).or_default().push((b, *clk));
                }
            }
            Rec::Call(h, _) if *h != 0 => {
                cur.insert(*th, (*h, *clk, *clk));
            }
            Rec::Ret(h, out) if *h != 0 => {
                if let Some((hh, c0, last)) = cur.remove(th) {
                    debug_assert_eq!(hh, *h);
                    calls.entry(*h).or_default().push(CallRec {
                        call: c0,
                        last_ev: last,
                        ret: *clk,
                        local: matches!(out, Outcome::Panic(PanicClass::Local, _)),
                        value: matches!(out, Outcome::Val(_) | Outcome::List(_)),
                    });
                }
            }
            _ => {
                if let Some(e) = cur.get_mut(th) {
                    e.2 = *clk;
                }
            }
        }
    }
    // mid-call rule: a cancellation check of the target, made outside the execution of any function
    // with cycle handling, at a clock after cancel() has returned, must not be survived: the call
    // it belongs to has to end with Cancelled::Local (unless that cancel was already dead)
    {
        let is_fixk = |f: FnK| matches!(f, FnK::Fix | FnK::FixJ | FnK::Fb);
        let mut stacks: HashMap<u8, Vec<FnK>> = HashMap::new();
        let mut in_call: HashMap<u8, (u32, u64)> = HashMap::new();
        // (handle, call clock) -> clock of a check that should have unwound
        let mut must_unwind: HashMap<(u32, u64), (u64, u64)> = HashMap::new();
        for (clk, th, r) in &res.log {
            match r {
                Rec::Call(h, _) if *h != 0 => {
                    in_call.insert(*th, (*h, *clk));
                    stacks.remove(th);
                }
                Rec::Enter(a) => stacks.entry(*th).or_default().push(a.f),
                Rec::Exit(..) | Rec::Unwound(_) => {
                    stacks.entry(*th).or_default().pop();
                }
                Rec::Ev(Ev::WillCheckCancellation) => {
                    let Some((h, c0)) = in_call.get(th).copied() else { continue };
                    let inside_fix = stacks.get(th).map(|s| s.iter().any(|f| is_fixk(*f))).unwrap_or(false);
                    if inside_fix {
                        continue;
                    }
                    if let Some(can) = cancels.get(&h) {
                        // a cancel that completed before this check and was not dead before this call
                        let prior_calls: Vec<&CallRec> = calls
                            .get(&h)
                            .map(|v| v.iter().filter(|n| n.ret < c0).collect())
                            .unwrap_or_default();
                        if let Some((b, d)) = can
                            .iter()
                            .find(|(_, d)| *d < *clk && !prior_calls.iter().any(|n| *d < n.last_ev))
                        {
                            // cancels that completed before an earlier call began are handled by the
                            // between-calls rule; here: completed after the previous call's return
                            let prev_ret = prior_calls.iter().map(|n| n.ret).max().unwrap_or(0);
                            if *b > prev_ret {
                                must_unwind.entry((h, c0)).or_insert((*clk, *d));
                            }
                        }
                    }
                }
                Rec::Ret(h, _) if *h != 0 => {
                    in_call.remove(th);
                }
                _ => {}
            }
        }
        for ((h, c0), (chk, d)) in &must_unwind {
            if let Some(cr) = calls.get(h).and_then(|v| v.iter().find(|n| n.call == *c0)) {
                c.inc("midcall_checks_after_cancel");
                if cr.value {
                    v.push(format!(
                        "T{h}: cancel() had returned at clock {d}; the target checked for cancellation at clock {chk} outside any function with cycle handling and still completed its call with a value instead of unwinding with Cancelled::Local"
                    ));
                }
            }
        }
    }
    for (h, cs) in &calls {
        let empty = Vec::new();
        let can = cancels.get(h).unwrap_or(&empty);
        for (m, call) in cs.iter().enumerate() {
            if call.local {
                let justified = can.iter().any(|(b, d)| {
                    *b < call.ret && !cs[..m].iter().any(|n| *d < n.last_ev)
                });
                if justified {
                    c.inc("local_cancellations_justified");
                } else {
                    v.push(format!(
                        "T{h}: call {m} failed with Cancelled::Local although no live cancel() of that handle precedes it (cancels {can:?})"
                    ));
                }
            }
            if !cyclic && call.value {
                let prev_ret = if m == 0 { 0 } else { cs[m - 1].ret };
                if let Some((b, d)) = can.iter().find(|(b, d)| *b > prev_ret && *d < call.call) {
                    v.push(format!(
                        "T{h}: cancel() (clock {b}..{d}) fell between two calls of its target, but the next call returned a value instead of unwinding with Cancelled::Local"
                    ));
                } else {
                    c.inc("calls_without_pending_cancel");
                }
            }
        }
        c.add("strict_windows", can.len() as u64);
    }
    (v, c)
}

// --------------------------------------------------------------------------------------------
// classification of violations into the exact classes listed in known_findings.json

/// F11: in a cycle that mixes a recovering head with functions without cycle handling, a
/// provisional memo of such a function (computed inside the head's iteration on thread A) is
/// handed to another thread B as if it were final, before the head has finalized.
fn provisional_plain_leak(case: &ConcCase, res: &IterResult) -> bool {
    let execs = mon::executions(&res.log);
    let keymap = mon::key_map(&res.log);
    // finalize clocks per head node
    let mut finalized: HashMap<u32, Vec<u64>> = HashMap::new();
    for (clk, _, r) in &res.log {
        if let Rec::Ev(Ev::DidFinalize(k, _)) = r {
            if let Some(a) = keymap.get(k) {
                finalized.entry(a.node).or_default().push(*clk);
            }
        }
    }
    let is_plain = |n: u32| matches!(case.prog.nodes[n as usize].kind, Kind::Plain | Kind::NoEq);
    let is_fix = |n: u32| matches!(case.prog.nodes[n as usize].kind, Kind::Fix | Kind::FixJ | Kind::Fb);
    // provisional executions of plain functions: nested in an active recovering head of the same thread
    let mut provisional: Vec<(u32, u8, u64, u64, u32)> = Vec::new(); // (node, thread, end, head_start, head_node)
    for e in &execs {
        if e.value.is_none() || !is_plain(e.act.node) {
            continue;
        }
        for h in &execs {
            if h.th == e.th && is_fix(h.act.node) && h.start < e.start && (h.end == 0 || h.end > e.end) {
                provisional.push((e.act.node, e.th, e.end, h.start, h.act.node));
            }
        }
    }
    // variant: a thread's own top-level request of a function without cycle handling re-enters a
    // recovering head that is executing on *another* thread (it receives the head's initial
    // value) and returns before that head has finalized
    {
        let mut call: HashMap<u8, (u32, u64)> = HashMap::new();
        let mut reentered: HashMap<u8, Vec<(u32, u64)>> = HashMap::new();
        for (clk, th, r) in &res.log {
            match r {
                Rec::Call(_, Req::Node(x)) => {
                    call.insert(*th, (*x as u32, *clk));
                    reentered.remove(th);
                }
                Rec::CycleInitial(h) => {
                    let h = *h as u32;
                    let own = execs
                        .iter()
                        .any(|e| e.th == *th && e.act.node == h && e.start < *clk && (e.end == 0 || e.end > *clk));
                    if !own && is_fix(h) {
                        reentered.entry(*th).or_default().push((h, *clk));
                    }
                }
                Rec::Ret(_, Outcome::Val(_)) => {
                    if let (Some((n, _)), Some(hs)) = (call.remove(th), reentered.remove(th)) {
                        if is_plain(n) {
                            for (h, t0) in hs {
                                let fin = finalized
                                    .get(&h)
                                    .map(|v| v.iter().any(|c| *c > t0 && *c < *clk))
                                    .unwrap_or(false);
                                if !fin {
                                    return true;
                                }
                            }
                        }
                    }
                }
                _ => {}
            }
        }
    }
    if provisional.is_empty() {
        return false;
    }
    // reads / top-level returns of such a node by another thread before the head finalized
    let head_final_after = |head: u32, head_start: u64, t: u64| -> bool {
        // true if the head had NOT finalized between its start and time t
        !finalized
            .get(&head)
            .map(|v| v.iter().any(|c| *c > head_start && *c < t))
            .unwrap_or(false)
    };
    let mut pending_top: HashMap<u8, (u32, u64)> = HashMap::new();
    for (clk, th, r) in &res.log {
        match r {
            Rec::Read(ReadK::Call(_, m, _), _) => {
                for (n, a, end, hs, hn) in &provisional {
                    if *n == *m && *a != *th && *end < *clk && head_final_after(*hn, *hs, *clk) {
                        // the reader did not execute m itself for this read
                        let executed_by_reader = execs
                            .iter()
                            .any(|e| e.th == *th && e.act.node == *m && e.end != 0 && e.end < *clk && e.end > *end);
                        if !executed_by_reader {
                            return true;
                        }
                    }
                }
            }
            Rec::Call(_, Req::Node(x)) => {
                pending_top.insert(*th, (*x as u32, *clk));
            }
            Rec::Ret(_, Outcome::Val(_)) => {
                if let Some((m, c0)) = pending_top.remove(th) {
                    for (n, a, end, hs, hn) in &provisional {
                        if *n == m && *a != *th && *end < *clk && head_final_after(*hn, *hs, *clk) {
                            let executed_by_reader = execs
                                .iter()
                                .any(|e| e.th == *th && e.act.node == m && e.start > c0 && e.end != 0 && e.end < *clk);
                            if !executed_by_reader {
                                return true;
                            }
                        }
                    }
                }
            }
            _ => {}
        }
    }
    false
}

/// F10: a thread waits for a query whose lock had been transferred to an outer cycle head and was
/// re-claimed by the thread it believes to be the owner; that thread releases its re-claim without
/// waking the waiter (the lock goes back to the transfer owner), the waiter's edge keeps pointing at
/// the releasing thread, and the real owner later waits for the waiter: undetected wait cycle.
fn stuck_on_reclaimed_transfer(res: &IterResult) -> bool {
    use salsa::verif::DgOp;
    let tok = |t: u64| res.ctx.log.th_of_token(t);
    // last BlockOn per thread without Resume
    let mut waiting: HashMap<u8, (u64, K, u8)> = HashMap::new();
    for (clk, th, r) in &res.log {
        if let Rec::Dg(op) = r {
            match *op {
                DgOp::BlockOn { from, key, to } => {
                    waiting.insert(tok(from), (*clk, K::of(key), tok(to)));
                }
                DgOp::Resume { thread, .. } => {
                    waiting.remove(&tok(thread));
                }
                _ => {}
            }
            let _ = th;
        }
    }
    for (_from, (c0, key, to)) in &waiting {
        let mut reclaimed_before = false;
        let mut released_after = false;
        let mut release_key_after = false;
        let mut transferred = false;
        for (clk, th, r) in &res.log {
            if let Rec::Dg(op) = r {
                match *op {
                    DgOp::Transfer { query, .. } if K::of(query) == *key && *clk < *c0 => transferred = true,
                    DgOp::Claim { key: k, reclaim: true } if K::of(k) == *key && *th == *to && *clk < *c0 => {
                        reclaimed_before = true
                    }
                    DgOp::ReleaseClaim { key: k, .. } if K::of(k) == *key && *th == *to && *clk > *c0 => {
                        released_after = true
                    }
                    DgOp::ReleaseKey { key: k, .. } if K::of(k) == *key && *clk > *c0 => release_key_after = true,
                    _ => {}
                }
            }
        }
        if transferred && reclaimed_before && released_after && !release_key_after {
            return true;
        }
    }
    false
}

/// salsa's own assertion messages about provisional memos / cycle participants
pub fn is_internal_cycle_assertion(v: &str) -> bool {
    v.contains("cycle participant with non-empty cycle heads and that doesn't depend on itself must have an outer cycle")
        || v.contains("assertion failed: provisional_status.is_provisional()")
}

fn has_mixed_cycle(case: &ConcCase) -> bool {
    let plain = case
        .prog
        .nodes
        .iter()
        .any(|n| matches!(n.kind, Kind::Plain | Kind::NoEq));
    let fix = case
        .prog
        .nodes
        .iter()
        .any(|n| matches!(n.kind, Kind::Fix | Kind::FixJ | Kind::Fb));
    plain && fix && is_cyclic_prog(&case.prog)
}

/// Returns the known-finding signature for this violating iteration, if it fits one exactly.
pub fn classify_conc(case: &ConcCase, res: &IterResult, violations: &[String]) -> Option<&'static str> {
    if res.fault_fired {
        return crate::camp_fault::classify_fault_msg(res.fault_site, &violations.join(" | "));
    }
    let all_fix = case
        .prog
        .nodes
        .iter()
        .all(|n| matches!(n.kind, Kind::Fix | Kind::FixJ));
    if all_fix
        && !res.stuck
        && violations.iter().any(|v| v.contains("too many cycle iterations"))
        && case.prog.nodes.iter().any(|n| crate::camp_single::has_peek(&n.body))
    {
        // known finding F18 (monotone program with a value-controlled callee set oscillates); once a
        // head has panicked the other requests of the revision see propagated panics
        return Some("C12/value_controlled_callee_set/iteration_limit_on_monotone_program");
    }
    if all_fix && !res.stuck && violations.iter().all(|v| v.contains("reference says") && v.contains("returned Val(")) {
        // the `_changed` pattern can run into known finding F5 (stale inner head): classified by the
        // single-threaded classifier on the post-phase requests (same log format)
        for (q, out) in &res.post {
            if let Req::Node(n) = q {
                if let Some(Expect::Val(x)) = cyc_expect("C12", &case.prog, &res.final_inp, *n) {
                    if *out != Outcome::Val(x) {
                        if case.mode == Mode::WriterReaders && stale_memo_from_abandoned_call(case, res) {
                            // C20's own clause (results of a cancelled computation must not survive the
                            // write): never attributed to a finding of the fixpoint machinery
                            return None;
                        }
                        return crate::camp_single::classify_cyc_mismatch(
                            &case.prog,
                            &res.final_inp,
                            &res.log,
                            *n,
                            out,
                        );
                    }
                }
            }
        }
        return None;
    }
    if !has_mixed_cycle(case) {
        return None;
    }
    if res.stuck {
        if stuck_on_reclaimed_transfer(res) {
            return Some("C14/deadlock_waiter_on_reclaimed_transferred_query");
        }
        return None;
    }
    if violations.iter().all(|v| is_internal_cycle_assertion(v)) {
        return Some("C14/internal_panic_participant_without_outer_cycle");
    }
    let value_mismatch_only = violations
        .iter()
        .all(|v| v.contains("reference says") && v.contains("returned Val("));
    if value_mismatch_only {
        // the narrow trace pattern is recorded for the evidence; the class itself is "wrong value in
        // a program whose cycle mixes recovering and non-recovering functions"
        let _ = provisional_plain_leak(case, res);
        return Some("C14/provisional_memo_of_plain_participant_served_to_other_thread");
    }
    None
}

/// Writer/reader cases: is some function that answers wrongly after the parallel phase *without having
/// executed in the final revision* served from a memo whose last completed execution ran inside a
/// top-level call that did not return a value (it was cancelled or unwound)? Such a memo is a leftover of
/// an abandoned computation.
fn stale_memo_from_abandoned_call(case: &ConcCase, res: &IterResult) -> bool {
    let log = &res.log;
    let start = log
        .iter()
        .rposition(|(_, _, r)| matches!(r, Rec::WriteDone(..)))
        .map(|i| i + 1)
        .unwrap_or(0);
    // top-level spans per log thread: (call clock, ret clock, returned a value)
    let mut spans: Vec<(u8, u64, u64, bool)> = Vec::new();
    let mut open: HashMap<u8, u64> = HashMap::new();
    for (c, th, r) in log {
        match r {
            Rec::Call(..) => {
                open.insert(*th, *c);
            }
            Rec::Ret(_, out) => {
                if let Some(b) = open.remove(th) {
                    spans.push((*th, b, *c, !matches!(out, Outcome::Panic(..))));
                }
            }
            _ => {}
        }
    }
    for (q, out) in &res.post {
        let Req::Node(n) = q else { continue };
        let Some(Expect::Val(x)) = cyc_expect("C12", &case.prog, &res.final_inp, *n) else { continue };
        if *out == Outcome::Val(x) {
            continue;
        }
        let executed_now = log[start..]
            .iter()
            .any(|(_, _, r)| matches!(r, Rec::Enter(a) if a.node as usize == *n));
        if executed_now {
            continue;
        }
        let last_exit = log[..start]
            .iter()
            .rev()
            .find(|(_, _, r)| matches!(r, Rec::Exit(a, _) if a.node as usize == *n));
        let Some((c, th, _)) = last_exit else { continue };
        let clean = spans
            .iter()
            .any(|(sth, b, e, ok)| sth == th && b < c && c < e && *ok);
        if !clean {
            return true;
        }
    }
    false
}

/// The records of the parallel phase without the protocol trace and the per-read records (at most the
/// last 400), one per line: `clock thread record`.
#[cfg(not(feature = "shuttle"))]
fn trace_excerpt(log: &[Stamped]) -> String {
    let from = log
        .iter()
        .position(|(_, _, r)| matches!(r, Rec::Note("parallel-begin")))
        .unwrap_or(0);
    let lines: Vec<String> = log[from..]
        .iter()
        .filter(|(_, _, r)| !matches!(r, Rec::Dg(_) | Rec::Fp(_) | Rec::Read(..)))
        .map(|(c, th, r)| format!("{c} t{th} {r:?}"))
        .collect();
    let skip = lines.len().saturating_sub(400);
    lines[skip..].join("\n")
}

// --------------------------------------------------------------------------------------------
// drivers

#[derive(Default)]
struct Acc {
    counts: Counts,
    iterations: u64,
    nontrivial: u64,
    ilvs: BTreeSet<u64>,
    violation: Option<String>,
}

fn schedules_per_case(o: &Opts) -> usize {
    std::env::var("SVH_SCHEDULES")
        .ok()
        .and_then(|s| s.parse().ok())
        .unwrap_or(if o.tier == "thorough" { 40 } else { 20 })
}

pub fn conc_case(o: &Opts, case_seed: u64) -> CaseReport {
    let mut rng = Rng::new(case_seed);
    let case = gen_case(&o.prop, &mut rng);
    let mut rep = CaseReport::new();
    rep.sample = case.describe();
    rep.sig = hash_str(&rep.sample);
    let acc = Arc::new(StdMutex::new(Acc::default()));
    let case = Arc::new(case);
    let prop = o.prop.clone();
    crate::sink::TRACE_DG.store(true, std::sync::atomic::Ordering::Relaxed);
    crate::sink::READ_BACK.store(
        matches!(o.prop.as_str(), "C08" | "C09" | "C16" | "C24"),
        std::sync::atomic::Ordering::Relaxed,
    );
    crate::sink::RELAXED_CLOCK.store(o.sub.contains("tsan") || o.sub.contains("miri"), std::sync::atomic::Ordering::Relaxed);

    #[cfg(feature = "shuttle")]
    {
        let n = schedules_per_case(o);
        let sched_seed = rng.next();
        let kind = rng.below(3);
        let replay = std::env::var("SVH_SCHEDULE").ok();
        let acc2 = acc.clone();
        let case2 = case.clone();
        let body = move || {
            if acc2.lock().unwrap().violation.is_some() {
                // a violation was already found for this case: remaining schedules are skipped
                return;
            }
            let res = run_iteration(&case2, 0);
            let ver = check_iter(&prop, &case2, &res);
            let mut a = acc2.lock().unwrap();
            a.iterations += 1;
            a.counts.merge(&ver.counts);
            if ver.nontrivial {
                a.nontrivial += 1;
                a.ilvs.insert(ver.ilv);
            }
            if !ver.violations.is_empty() {
                let sig = classify_conc(&case2, &res, &ver.violations)
                    .map(|s| format!(" [sig:{s}]"))
                    .unwrap_or_default();
                a.violation = Some(format!("{}{sig}", ver.violations.join(" | ")));
            }
        };
        let dir = format!("{}/{}/schedules", o.out, o.prop);
        let _ = std::fs::create_dir_all(&dir);
        let mut config = shuttle::Config::default();
        config.stack_size = 4 * 1024 * 1024;
        config.max_steps = shuttle::MaxSteps::FailAfter(400_000);
        // the failing case is replayed from its seed (scheduler seeds derive from it); shuttle's
        // own persistence fires on every *caught* panic as well, so it stays off
        config.failure_persistence = shuttle::FailurePersistence::None;
        let _ = &dir;
        config.silence_warnings = true;
        let r = std::panic::catch_unwind(std::panic::AssertUnwindSafe(|| {
            if let Some(s) = &replay {
                shuttle::replay_from_file(body, s);
                return;
            }
            match kind {
                0 => shuttle::Runner::new(
                    shuttle::scheduler::RandomScheduler::new_from_seed(sched_seed, n),
                    config,
                )
                .run(body),
                1 => shuttle::Runner::new(
                    shuttle::scheduler::PctScheduler::new_from_seed(sched_seed, 2 + (sched_seed % 4) as usize, n),
                    config,
                )
                .run(body),
                _ => shuttle::Runner::new(
                    shuttle::scheduler::UrwRandomScheduler::new_from_seed(sched_seed, n),
                    config,
                )
                .run(body),
            };
        }));
        let a = acc.lock().unwrap();
        rep.counts.merge(&a.counts);
        rep.counts.add("schedules", a.iterations);
        rep.counts.add("nontrivial_schedules", a.nontrivial);
        rep.counts.add("distinct_interleavings", a.ilvs.len() as u64);
        rep.nontrivial = a.nontrivial > 0;
        rep.extra_evals = a.iterations.saturating_sub(1);
        rep.ilvs = a.ilvs.iter().copied().collect();
        if r.is_ok() {
            if let Some(vm) = &a.violation {
                rep.violations.push(format!("{vm} [schedule {} of the case's scheduler seed]", a.iterations));
            }
        }
        if let Err(p) = r {
            let msg = crate::single::payload_msg(&*p);
            let sched_file = msg
                .split("persisted to file: ")
                .nth(1)
                .map(|s| s.lines().next().unwrap_or("").trim().to_string())
                .unwrap_or_default();
            rep.replay_extra = sched_file.clone();
            if let Some(vm) = &a.violation {
                rep.violations.push(format!("{vm} [schedule file: {sched_file}]"));
            } else if msg.contains("deadlock") {
                rep.violations.push(format!(
                    "deadlock: every thread is blocked ({}) [schedule file: {sched_file}]",
                    msg.lines().find(|l| l.contains("deadlock")).unwrap_or("").trim()
                ));
            } else if msg.contains("exceeded max_steps") || msg.contains("max_steps") {
                rep.violations.push(format!(
                    "livelock: schedule exceeded the step bound of 400000 scheduling points [schedule file: {sched_file}]"
                ));
            } else {
                rep.violations.push(format!(
                    "unexpected panic escaped a thread: {} [schedule file: {sched_file}]",
                    msg.chars().take(400).collect::<String>()
                ));
            }
        }
    }

    #[cfg(not(feature = "shuttle"))]
    {
        let runs = schedules_per_case(o);
        // no-progress watchdog: generous under the Miri interpreter (four orders of magnitude slower)
        let wd: u64 = if o.sub.contains("miri") { 600 } else { 20 };
        let mut case = case;
        let mut fault_total = 0u64;
        if case.fault_at.is_some() {
            // counting run
            let res = run_iteration(&case, wd);
            fault_total = res.fault_steps.max(1);
            if res.stuck {
                rep.inconclusive.push("counting run got stuck".into());
                rep.fatal = true;
                return rep;
            }
        }
        for k in 0..runs {
            if fault_total > 0 {
                let mut c2 = (*case).clone();
                c2.fault_at = Some(1 + mix(case_seed, 77 + k as u64) % fault_total);
                case = Arc::new(c2);
            }
            let profile = 1 + (mix(case_seed, k as u64) % 6);
            crate::sink::FP_PROFILE.store(profile, std::sync::atomic::Ordering::Relaxed);
            crate::sink::FP_SEED.store(mix(case_seed, 1000 + k as u64), std::sync::atomic::Ordering::Relaxed);
            let res = run_iteration(&case, wd);
            let ver = check_iter(&prop, &case, &res);
            if !ver.violations.is_empty() || res.stuck {
                crate::camp_single::dump_log(&res.log);
                // the observed history goes into the replay file: OS-thread runs are timing dependent
                rep.replay_extra = trace_excerpt(&res.log);
            }
            let mut a = acc.lock().unwrap();
            a.iterations += 1;
            a.counts.merge(&ver.counts);
            if ver.nontrivial {
                a.nontrivial += 1;
                a.ilvs.insert(ver.ilv);
            }
            let sig = if ver.violations.is_empty() && !res.stuck {
                None
            } else {
                classify_conc(&case, &res, &ver.violations)
            };
            let sigs = sig.map(|s| format!(" [sig:{s}]")).unwrap_or_default();
            if res.stuck {
                // threads are blocked for good: this process cannot run further cases
                let dgv = ver.violations.join(" | ");
                if ver.violations.len() > 1 {
                    a.violation = Some(format!("logical deadlock on OS threads: {dgv}{sigs}"));
                } else {
                    rep.inconclusive.push(format!(
                        "watchdog: no progress for 20 s but the protocol trace shows no stuck wait ({dgv})"
                    ));
                }
                rep.fatal = true;
                break;
            }
            if !ver.violations.is_empty() {
                a.violation = Some(format!(
                    "{} [failpoint profile {profile}, run {k}]{sigs}",
                    ver.violations.join(" | ")
                ));
                break;
            }
        }
        crate::sink::FP_PROFILE.store(0, std::sync::atomic::Ordering::Relaxed);
        let a = acc.lock().unwrap();
        rep.counts.merge(&a.counts);
        rep.counts.add("os_runs", a.iterations);
        rep.counts.add("nontrivial_schedules", a.nontrivial);
        rep.counts.add("distinct_interleavings", a.ilvs.len() as u64);
        rep.nontrivial = a.nontrivial > 0;
        rep.extra_evals = a.iterations.saturating_sub(1);
        rep.ilvs = a.ilvs.iter().copied().collect();
        if let Some(vm) = &a.violation {
            rep.violations.push(vm.clone());
        }
    }
    rep
}
