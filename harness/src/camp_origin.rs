//! C25: stored dependency edges round-trip exactly. Oracle: the plain `Vec<EdgeSpec>` the origin
//! was built from. Sequences of length <= 2 over the boundary classes are enumerated exhaustively
//! (sharded), longer ones are sampled.

use salsa::verif::origin::{EdgeSpec, MAX_INDEX, MAX_INGREDIENT};

use crate::camp::{CaseReport, Opts};
use crate::util::*;

const INGREDIENTS: [u32; 7] = [0, 1, 0xFFE, 0xFFF, 0x1000, 0x1001, MAX_INGREDIENT];
const INDICES: [u32; 5] = [0, 1, (1 << 20) - 1, 1 << 20, MAX_INDEX];
const GENERATIONS: [u32; 6] = [0, 1, 0xFFFFE, 0xFFFFF, 0x100000, u32::MAX];

pub fn classes() -> Vec<EdgeSpec> {
    let mut v = Vec::new();
    for &ingredient in &INGREDIENTS {
        for &index in &INDICES {
            for &generation in &GENERATIONS {
                for output in [false, true] {
                    v.push(EdgeSpec {
                        output,
                        ingredient,
                        index,
                        generation,
                    });
                }
            }
        }
    }
    v
}

pub fn total_exhaustive() -> u64 {
    let c = classes().len() as u64;
    1 + c + c * c
}

/// The k-th sequence of the exhaustive space (length 0, 1, 2).
fn nth_sequence(cl: &[EdgeSpec], k: u64) -> Vec<EdgeSpec> {
    let c = cl.len() as u64;
    if k == 0 {
        vec![]
    } else if k <= c {
        vec![cl[(k - 1) as usize]]
    } else {
        let j = k - 1 - c;
        vec![cl[(j / c) as usize], cl[(j % c) as usize]]
    }
}

fn check_one(edges: &[EdgeSpec], untracked: bool, with_extra: bool, counts: &mut Counts) -> Option<String> {
    #[cfg(feature = "shuttle")]
    {
        let _ = (edges, untracked, with_extra, counts);
        return Some("origin round trips are not available in the shuttle build".into());
    }
    #[cfg(all(not(feature = "persist"), not(feature = "shuttle")))]
    {
        let r = salsa::verif::origin::round_trip(edges, untracked, with_extra);
        counts.inc("origins_built");
        if r.packed {
            counts.inc("packed_layouts");
        } else if !edges.is_empty() {
            counts.inc("wide_layouts");
        }
        let expect_packed = !edges.is_empty()
            && edges
                .iter()
                .all(|e| !e.output && e.ingredient <= 0xFFF && e.generation <= 0xFFFFF);
        if expect_packed {
            counts.inc("packable_sequences");
        }
        let inputs: Vec<EdgeSpec> = edges.iter().copied().filter(|e| !e.output).collect();
        let outputs: Vec<EdgeSpec> = edges.iter().copied().filter(|e| e.output).collect();
        let desc = || format!("edges {edges:?} untracked={untracked} with_extra={with_extra}");
        if !r.kind_ok {
            return Some(format!("origin decodes to the wrong kind: {}", desc()));
        }
        if r.edges != edges {
            return Some(format!("stored origin yields {:?} for {}", r.edges, desc()));
        }
        if r.edges_rev != edges {
            return Some(format!("reverse iteration yields {:?} for {}", r.edges_rev, desc()));
        }
        if r.inputs != inputs || r.outputs != outputs {
            return Some(format!(
                "input/output views do not partition the edges: inputs {:?} outputs {:?} for {}",
                r.inputs,
                r.outputs,
                desc()
            ));
        }
        if with_extra && r.extra_after_build != Some(true) {
            return Some(format!("extra data built together with the edges is lost: {:?} for {}", r.extra_after_build, desc()));
        }
        if !with_extra && r.extra_after_build.is_some() {
            return Some(format!("extra data appears although none was given for {}", desc()));
        }
        if r.extra_after_insert != Some(true) || r.edges_after_extra != edges {
            return Some(format!(
                "attaching extra data changed the edges or lost the data: edges {:?} extra {:?} for {}",
                r.edges_after_extra,
                r.extra_after_insert,
                desc()
            ));
        }
        if with_extra
            && (r.extra_debug_after_build != r.extra_debug_after_insert
                || r.extra_debug_after_build != r.extra_debug_after_clear
                || r.extra_debug_after_build.is_none())
        {
            return Some(format!(
                "extra revision data changed: after build {:?}, after attaching {:?}, after clear_edges {:?} for {}",
                r.extra_debug_after_build,
                r.extra_debug_after_insert,
                r.extra_debug_after_clear,
                desc()
            ));
        }
        if !with_extra && r.extra_debug_after_insert != r.extra_debug_after_clear {
            return Some(format!(
                "extra revision data changed by clear_edges: {:?} vs {:?} for {}",
                r.extra_debug_after_insert,
                r.extra_debug_after_clear,
                desc()
            ));
        }
        if r.edges_after_clear != 0 || r.extra_after_clear != Some(true) || !r.kind_ok_after_clear {
            return Some(format!(
                "clearing edges: {} edges left, extra {:?}, kind ok {} for {}",
                r.edges_after_clear,
                r.extra_after_clear,
                r.kind_ok_after_clear,
                desc()
            ));
        }
        None
    }
    #[cfg(feature = "persist")]
    {
        let _ = with_extra;
        counts.inc("origins_serialized");
        let mut buf = Vec::new();
        let mut ser = serde_json::Serializer::new(&mut buf);
        if let Err(e) = salsa::verif::origin::serialize(edges, untracked, &mut ser) {
            return Some(format!("serializing {edges:?} failed: {e}"));
        }
        let mut de = serde_json::Deserializer::from_slice(&buf);
        match salsa::verif::origin::deserialize(&mut de) {
            Ok((u, back)) => {
                if u != untracked || back != edges {
                    return Some(format!(
                        "persisted origin deserializes to untracked={u} {back:?} for edges {edges:?} untracked={untracked}"
                    ));
                }
                None
            }
            Err(e) => Some(format!("deserializing the origin of {edges:?} failed: {e}")),
        }
    }
}

/// One "case" = a block of 512 sequences of the exhaustive space (sub `origin-exh`) or 256 sampled
/// longer sequences (sub `origin-rand`).
pub fn origin_case(o: &Opts, case_seed: u64, case_index: u64) -> CaseReport {
    let mut rep = CaseReport::new();
    let cl = classes();
    let mut rng = Rng::new(case_seed);
    let mut sample = String::new();
    if o.sub.starts_with("origin-miri") {
        // under Miri: every sequence of length <= 1 (421 of them, spread over 16 cases) plus a few
        // sampled longer ones per case
        let short_total = 1 + cl.len() as u64;
        let per = short_total.div_ceil(16);
        // rotate with the seed so that different quick runs interpret different blocks
        let start = ((case_index + o.seed) % 16) * per;
        let end = (start + per).min(short_total);
        let mut seqs: Vec<Vec<EdgeSpec>> = (start..end).map(|k| nth_sequence(&cl, k)).collect();
        for _ in 0..6 {
            let len = 2 + rng.below(9);
            seqs.push((0..len).map(|_| *rng.pick(&cl)).collect());
        }
        for seq in &seqs {
            for untracked in [false, true] {
                for with_extra in [false, true] {
                    rep.extra_evals += 1;
                    rep.counts.inc("miri_origins");
                    if let Some(m) = check_one(seq, untracked, with_extra, &mut rep.counts) {
                        rep.violations.push(m);
                        return rep;
                    }
                }
            }
            rep.ilvs.push(hash_str(&format!("{seq:?}")));
        }
        rep.nontrivial = true;
        rep.sig = 0;
        rep.sample = format!("under Miri: sequences #{start}..#{end} of length <= 1 and 6 sampled ones, e.g. {:?}", seqs.last());
        return rep;
    }
    if o.sub.starts_with("origin-exh") || o.sub.starts_with("origin-serde") {
        let total = total_exhaustive();
        let block = 512u64;
        let start = case_index * block;
        if start >= total {
            rep.counts.inc("blocks_beyond_space");
            return rep;
        }
        let end = (start + block).min(total);
        for k in start..end {
            let seq = nth_sequence(&cl, k);
            for untracked in [false, true] {
                for with_extra in [false, true] {
                    rep.extra_evals += 1;
                    if let Some(m) = check_one(&seq, untracked, with_extra, &mut rep.counts) {
                        rep.violations.push(m);
                        return rep;
                    }
                }
            }
            if k == start {
                sample = format!("sequences #{start}..#{end} of {total}, first: {seq:?}");
            }
        }
        rep.counts.add("exhaustive_sequences", end - start);
        rep.nontrivial = true;
        rep.sig = 0;
        rep.ilvs = (start..end).collect();
    } else {
        for i in 0..256u64 {
            let len = 3 + rng.below(38);
            let mut seq = Vec::with_capacity(len);
            // mostly packable prefixes so that the switch from packed to wide layout happens late
            let packable_prefix = rng.below(len + 1);
            for j in 0..len {
                let mut e = *rng.pick(&cl);
                if j < packable_prefix {
                    e.output = false;
                    e.ingredient &= 0xFFF;
                    e.generation &= 0xFFFFF;
                }
                if rng.chance(1, 3) {
                    e.index = rng.below(MAX_INDEX as usize) as u32;
                }
                seq.push(e);
            }
            let untracked = rng.chance(1, 2);
            let with_extra = rng.chance(1, 2);
            rep.extra_evals += 1;
            if let Some(m) = check_one(&seq, untracked, with_extra, &mut rep.counts) {
                rep.violations.push(m);
                return rep;
            }
            if i == 0 {
                sample = format!("sampled sequence of length {len}: {:?}...", &seq[..3]);
            }
            rep.ilvs.push(hash_str(&format!("{seq:?}{untracked}{with_extra}")));
        }
        rep.counts.add("sampled_sequences", 256);
        rep.nontrivial = true;
        rep.sig = 0;
    }
    rep.sample = sample;
    rep
}
