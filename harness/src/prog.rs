//! Program model: programs are data interpreted by a fixed set of generic tracked functions.

use std::fmt;

use crate::util::Rng;

pub type NodeId = usize;

/// Sentinel returned when a struct that does not exist is addressed.
pub const ABSENT: u16 = 0xFFFF;

#[derive(Clone, Copy, PartialEq, Eq, Debug, Hash, PartialOrd, Ord)]
pub enum Kind {
    Plain,
    NoEq,
    Lru,
    Multi,
    Maker,
    /// `cycle_initial` only (default cycle_fn)
    Fix,
    /// `cycle_fn` = join with previous, `cycle_initial` = bottom
    FixJ,
    /// `cycle_result` fallback
    Fb,
}

#[derive(Clone, Copy, PartialEq, Eq, Debug, Hash, PartialOrd, Ord)]
pub enum Sym {
    K1,
    K2,
    K3,
    Imm,
    R,
}

impl Sym {
    pub const ALL: [Sym; 5] = [Sym::K1, Sym::K2, Sym::K3, Sym::Imm, Sym::R];
    pub fn revisions(self) -> Option<usize> {
        match self {
            Sym::K1 => Some(1),
            Sym::K2 => Some(2),
            Sym::K3 | Sym::R => Some(3),
            Sym::Imm => None,
        }
    }
    pub fn idx(self) -> usize {
        self as usize
    }
}

#[derive(Clone, Copy, PartialEq, Eq, Debug, Hash)]
pub enum Fld {
    Ident,
    T0,
    T1,
    T2,
}

#[derive(Clone, Copy, PartialEq, Eq, Debug, Hash)]
pub enum Op {
    /// (a + b) mod m
    Add(u16),
    Min,
    Max,
    Or,
    And,
    Xor,
    Eq,
    /// a & !b (non-monotone in b)
    AndNot,
}

impl Op {
    pub fn apply(self, a: u16, b: u16) -> u16 {
        match self {
            Op::Add(m) => ((a as u32 + b as u32) % (m.max(1) as u32)) as u16,
            Op::Min => a.min(b),
            Op::Max => a.max(b),
            Op::Or => a | b,
            Op::And => a & b,
            Op::Xor => a ^ b,
            Op::Eq => (a == b) as u16,
            Op::AndNot => a & !b,
        }
    }
}

#[derive(Clone, PartialEq, Eq, Debug, Hash)]
pub enum Expr {
    Const(u16),
    In(usize, usize),
    Call(NodeId),
    CallMulti(NodeId, Box<Expr>),
    Arg,
    Untracked(usize),
    If(Box<Expr>, Box<Expr>, Box<Expr>),
    Bin(Op, Box<Expr>, Box<Expr>),
    /// call maker, read a field of its i-th struct (ABSENT if there is none)
    EntField(NodeId, usize, Fld),
    /// call `q_on_ent` on the i-th struct of maker (ABSENT if none)
    OnEnt(NodeId, usize),
    /// call `q_spec` on the i-th struct of maker (ABSENT if none)
    Spec(NodeId, usize),
    /// try to `specify` on another query's struct: always panics
    SpecForeign(NodeId, usize),
    /// inside on_ent / spec bodies: field of the key struct
    SelfField(Fld),
    /// intern a value in the given type and read it back
    Intern(Sym, Box<Expr>),
    /// intern into SymK1 and call `q_on_sym` on the handle
    OnSym(Box<Expr>),
    /// inside the on_sym body: the interned value
    SelfSym,
    /// push a diagnostic, return the value
    Acc(Box<Expr>),
    /// value-controlled but monotone branch: `let c = n(); if c == 0 { (m() & g) | g } else { c | g }`
    /// (equals `n() | g`; `m` is only consulted while `n` is still at bottom)
    PeekZ(NodeId, NodeId, Box<Expr>),
    /// the mirror image: `let c = n(); if c != 0 { c | m() | g } else { g }` (monotone; `m` is only
    /// consulted once `n` has left bottom, so a dependency appears in a later iteration)
    PeekNZ(NodeId, NodeId, Box<Expr>),
}

/// Generate `PeekNZ` (callee consulted only once another callee has left bottom). Off by default:
/// with write histories it runs into a family of genuine salsa defects (DESIGN.md 14.3, F18-F20)
/// whose classification is incomplete; the concurrent cyclic generator switches it on for cases that
/// start from a fresh database, and `SVH_PEEKNZ=1` switches it on everywhere (exploration, replay).
pub static PEEK_NZ: std::sync::atomic::AtomicBool = std::sync::atomic::AtomicBool::new(false);

pub fn peek_nz_env() -> bool {
    std::env::var("SVH_PEEKNZ").is_ok_and(|v| v == "1")
}

#[derive(Clone, PartialEq, Eq, Debug, Hash)]
pub struct MkEnt {
    pub when: Expr,
    pub ident: Expr,
    pub t0: Expr,
    pub t1: Expr,
    pub t2: Expr,
    pub specify: Option<Expr>,
    /// the creator specifies only while this evaluates to non-zero (struct is created either way)
    pub spec_when: Option<Expr>,
    pub pre_read: bool,
    pub twice: bool,
}

#[derive(Clone, PartialEq, Eq, Debug, Hash)]
pub struct Node {
    pub kind: Kind,
    pub body: Expr,
    pub mk: Vec<MkEnt>,
    /// fallback value (Fb) / unused otherwise
    pub fb: u16,
    /// maker declared with `lru = 1` (its Vec of structs can be evicted; identities must survive)
    pub lru_maker: bool,
    /// fixpoint function additionally declared with `lru = 1`
    pub lru_fix: bool,
}

#[derive(Clone, PartialEq, Eq, Debug, Hash)]
pub struct Prog {
    pub nodes: Vec<Node>,
    pub ncells: usize,
    pub nunt: usize,
    pub on_ent: Expr,
    pub on_sym: Expr,
    pub spec: Expr,
}

// ---------- display ----------

impl fmt::Display for Expr {
    fn fmt(&self, f: &mut fmt::Formatter<'_>) -> fmt::Result {
        match self {
            Expr::Const(c) => write!(f, "{c}"),
            Expr::In(c, fl) => write!(f, "in{c}.{}", if *fl == 0 { "a" } else { "b" }),
            Expr::Call(n) => write!(f, "n{n}()"),
            Expr::CallMulti(n, a) => write!(f, "n{n}({a})"),
            Expr::Arg => write!(f, "arg"),
            Expr::Untracked(c) => write!(f, "unt{c}"),
            Expr::If(c, t, e) => write!(f, "if({c},{t},{e})"),
            Expr::Bin(op, a, b) => write!(f, "{op:?}({a},{b})"),
            Expr::EntField(m, i, fl) => write!(f, "n{m}[{i}].{fl:?}"),
            Expr::OnEnt(m, i) => write!(f, "on_ent(n{m}[{i}])"),
            Expr::Spec(m, i) => write!(f, "spec(n{m}[{i}])"),
            Expr::SpecForeign(m, i) => write!(f, "specify!(n{m}[{i}])"),
            Expr::SelfField(fl) => write!(f, "self.{fl:?}"),
            Expr::Intern(s, e) => write!(f, "intern{s:?}({e})"),
            Expr::OnSym(e) => write!(f, "on_sym({e})"),
            Expr::SelfSym => write!(f, "self.v"),
            Expr::Acc(e) => write!(f, "acc({e})"),
            Expr::PeekZ(n, m, g) => write!(f, "peekz(n{n},n{m},{g})"),
            Expr::PeekNZ(n, m, g) => write!(f, "peeknz(n{n},n{m},{g})"),
        }
    }
}

impl fmt::Display for Prog {
    fn fmt(&self, f: &mut fmt::Formatter<'_>) -> fmt::Result {
        write!(f, "cells={} unt={}; ", self.ncells, self.nunt)?;
        for (i, n) in self.nodes.iter().enumerate() {
            write!(f, "n{i}:{:?}{}", n.kind, if n.lru_fix { "[lru=1]" } else { "" })?;
            if n.kind == Kind::Fb {
                write!(f, "[fb={}]", n.fb)?;
            }
            if n.kind == Kind::Maker {
                if n.lru_maker {
                    write!(f, "[lru=1]")?;
                }
                write!(f, "{{")?;
                for m in &n.mk {
                    write!(
                        f,
                        "mk(when={},id={},t0={},t1={},t2={}",
                        m.when, m.ident, m.t0, m.t1, m.t2
                    )?;
                    if let Some(s) = &m.specify {
                        write!(f, ",spec={s}")?;
                    }
                    if let Some(s) = &m.spec_when {
                        write!(f, ",spec_when={s}")?;
                    }
                    if m.pre_read {
                        write!(f, ",pre")?;
                    }
                    if m.twice {
                        write!(f, ",twice")?;
                    }
                    write!(f, ")")?;
                }
                write!(f, "}}")?;
            } else {
                write!(f, "={}", n.body)?;
            }
            write!(f, "; ")?;
        }
        write!(
            f,
            "on_ent={}; on_sym={}; spec={}",
            self.on_ent, self.on_sym, self.spec
        )
    }
}

// ---------- histories ----------

#[derive(Clone, Copy, PartialEq, Eq, Debug, Hash)]
pub enum Dur {
    Low,
    Medium,
    High,
    Never,
}

impl Dur {
    pub const ALL: [Dur; 4] = [Dur::Low, Dur::Medium, Dur::High, Dur::Never];
    pub fn idx(self) -> usize {
        self as usize
    }
}

#[derive(Clone, PartialEq, Eq, Debug, Hash)]
pub enum Req {
    Node(NodeId),
    Multi(NodeId, u16),
    Accum(NodeId),
    /// field of i-th struct of a maker
    EntField(NodeId, usize, Fld),
    OnEnt(NodeId, usize),
    Spec(NodeId, usize),
    /// top-level interning (outside any query) + read back
    Intern(Sym, u16),
    /// enumerate live Ent structs
    Entries,
}

#[derive(Clone, PartialEq, Eq, Debug, Hash)]
pub enum Step {
    Set {
        cell: usize,
        field: usize,
        val: u16,
        dur: Option<Dur>,
    },
    Synth(Dur),
    Poke {
        unt: usize,
        val: u16,
        dur: Dur,
    },
    Req(Req),
    SetLru(usize),
    Evict,
}

impl fmt::Display for Step {
    fn fmt(&self, f: &mut fmt::Formatter<'_>) -> fmt::Result {
        match self {
            Step::Set {
                cell,
                field,
                val,
                dur,
            } => {
                write!(f, "set in{cell}.{}={val}", if *field == 0 { "a" } else { "b" })?;
                if let Some(d) = dur {
                    write!(f, "@{d:?}")?;
                }
                Ok(())
            }
            Step::Synth(d) => write!(f, "synth@{d:?}"),
            Step::Poke { unt, val, dur } => write!(f, "poke unt{unt}={val}@{dur:?}"),
            Step::Req(r) => write!(f, "req {r:?}"),
            Step::SetLru(n) => write!(f, "lru={n}"),
            Step::Evict => write!(f, "evict"),
        }
    }
}

pub fn fmt_history(h: &[Step]) -> String {
    h.iter().map(|s| s.to_string()).collect::<Vec<_>>().join("; ")
}

// ---------- generator ----------

#[derive(Clone, Debug)]
pub struct GenCfg {
    pub min_nodes: usize,
    pub max_nodes: usize,
    pub max_cells: usize,
    pub max_depth: usize,
    pub vmod: u16,
    pub kinds: Vec<(Kind, u32)>,
    pub untracked: bool,
    pub makers: bool,
    pub specify: bool,
    pub spec_panics: bool,
    pub intern: Vec<Sym>,
    pub on_sym: bool,
    pub accumulate: bool,
    pub durabilities: bool,
    pub never: bool,
    pub lru_steps: bool,
    /// cyclic program families
    pub cyclic: Option<CycCfg>,
    pub hist_len: (usize, usize),
    pub accum_reqs: bool,
    pub intern_reqs: bool,
    pub entries_reqs: bool,
    /// some makers are declared with `lru = 1`
    pub lru_makers: bool,
    /// durability-profiled histories (common high durability first, value-preserving durability changes)
    pub dur_profile: bool,
    /// value-neutral accumulation guarded by inputs
    pub neutral_acc: bool,
    /// some fixpoint functions are also lru functions
    pub lru_fix: bool,
}

#[derive(Clone, Debug)]
pub struct CycCfg {
    /// allow value-controlled monotone branches (`PeekZ`)
    pub peek: bool,
    pub kinds: Vec<(Kind, u32)>,
    /// allow non-monotone ops (xor / andnot / add) inside cycles
    pub nonmonotone: bool,
    pub bits: u16,
}

impl GenCfg {
    pub fn base() -> Self {
        GenCfg {
            min_nodes: 3,
            max_nodes: 9,
            max_cells: 4,
            max_depth: 3,
            vmod: 4,
            kinds: vec![(Kind::Plain, 6)],
            untracked: false,
            makers: false,
            specify: false,
            spec_panics: false,
            intern: vec![],
            on_sym: false,
            accumulate: false,
            durabilities: false,
            never: false,
            lru_steps: false,
            cyclic: None,
            hist_len: (15, 50),
            accum_reqs: false,
            intern_reqs: false,
            entries_reqs: false,
            lru_makers: false,
            dur_profile: false,
            neutral_acc: false,
            lru_fix: false,
        }
    }
}

fn pick_weighted<T: Copy>(rng: &mut Rng, xs: &[(T, u32)]) -> T {
    let total: u32 = xs.iter().map(|x| x.1).sum();
    let mut r = (rng.next() % total.max(1) as u64) as u32;
    for (x, w) in xs {
        if r < *w {
            return *x;
        }
        r -= *w;
    }
    xs[0].0
}

struct G<'a> {
    rng: &'a mut Rng,
    cfg: &'a GenCfg,
    ncells: usize,
    nunt: usize,
    kinds: Vec<Kind>,
}

impl G<'_> {
    fn val(&mut self) -> u16 {
        self.rng.below(self.cfg.vmod as usize) as u16
    }

    fn leaf(&mut self, ctx: Ctx) -> Expr {
        let r = self.rng.below(10);
        match r {
            0..=1 => Expr::Const(self.val()),
            2..=7 => Expr::In(self.rng.below(self.ncells), self.rng.below(2)),
            8 if ctx.multi => Expr::Arg,
            8 if ctx.ent => Expr::SelfField(*self.rng.pick(&[Fld::Ident, Fld::T0, Fld::T1, Fld::T2])),
            8 if ctx.sym => Expr::SelfSym,
            9 if self.cfg.untracked && self.nunt > 0 && self.rng.chance(1, 2) => {
                Expr::Untracked(self.rng.below(self.nunt))
            }
            _ => Expr::In(self.rng.below(self.ncells), self.rng.below(2)),
        }
    }

    fn op(&mut self) -> Op {
        let m = self.cfg.vmod;
        *self.rng.pick(&[Op::Add(m), Op::Add(m), Op::Min, Op::Max, Op::Eq, Op::Xor])
    }

    /// expression for node `me` (may call nodes < me)
    fn expr(&mut self, me: usize, depth: usize, ctx: Ctx) -> Expr {
        if depth == 0 {
            return self.leaf(ctx);
        }
        let r = self.rng.below(100);
        let callable: Vec<usize> = (0..me).collect();
        match r {
            0..=24 if !callable.is_empty() && !ctx.nocall => {
                let n = *self.rng.pick(&callable);
                self.call(n, me, depth, ctx)
            }
            25..=44 => {
                let op = self.op();
                Expr::Bin(
                    op,
                    Box::new(self.expr(me, depth - 1, ctx)),
                    Box::new(self.expr(me, depth - 1, ctx)),
                )
            }
            45..=59 => Expr::If(
                Box::new(self.expr(me, depth - 1, ctx)),
                Box::new(self.expr(me, depth - 1, ctx)),
                Box::new(self.expr(me, depth - 1, ctx)),
            ),
            60..=69 if !self.cfg.intern.is_empty() => {
                let s = *self.rng.pick(&self.cfg.intern.clone());
                Expr::Intern(s, Box::new(self.expr(me, depth - 1, ctx)))
            }
            70..=74 if self.cfg.on_sym && !ctx.sym && !ctx.ent => {
                Expr::OnSym(Box::new(self.expr(me, depth - 1, ctx)))
            }
            75..=84 if self.cfg.accumulate && !ctx.noacc => {
                if self.cfg.neutral_acc && self.rng.chance(1, 2) {
                    // value-neutral push guarded by an input: the function backdates while what
                    // it accumulates changes
                    let c = Expr::In(self.rng.below(self.ncells), self.rng.below(2));
                    let v = self.val();
                    let k = self.val();
                    Expr::If(
                        Box::new(c),
                        Box::new(Expr::Bin(
                            Op::Max,
                            Box::new(Expr::Bin(
                                Op::Min,
                                Box::new(Expr::Acc(Box::new(Expr::Const(v)))),
                                Box::new(Expr::Const(0)),
                            )),
                            Box::new(Expr::Const(k)),
                        )),
                        Box::new(Expr::Const(k)),
                    )
                } else {
                    Expr::Acc(Box::new(self.expr(me, depth - 1, ctx)))
                }
            }
            _ => self.leaf(ctx),
        }
    }

    fn call(&mut self, n: usize, me: usize, depth: usize, ctx: Ctx) -> Expr {
        match self.kinds[n] {
            Kind::Multi => Expr::CallMulti(n, Box::new(self.expr(me, depth.saturating_sub(1).min(1), ctx))),
            Kind::Maker => {
                let i = self.rng.below(3);
                match self.rng.below(10) {
                    0..=3 => Expr::EntField(
                        n,
                        i,
                        *self.rng.pick(&[Fld::Ident, Fld::T0, Fld::T0, Fld::T1, Fld::T2]),
                    ),
                    4..=6 => Expr::OnEnt(n, i),
                    7..=8 if self.cfg.specify => Expr::Spec(n, i),
                    9 if self.cfg.spec_panics && self.rng.chance(1, 6) => Expr::SpecForeign(n, i),
                    _ => Expr::Call(n),
                }
            }
            _ => Expr::Call(n),
        }
    }
}

#[derive(Clone, Copy, Default)]
struct Ctx {
    multi: bool,
    ent: bool,
    sym: bool,
    nocall: bool,
    noacc: bool,
}

pub fn gen_prog(rng: &mut Rng, cfg: &GenCfg) -> Prog {
    if let Some(c) = cfg.cyclic.clone() {
        return gen_cyclic(rng, cfg, &c);
    }
    let n = rng.range(cfg.min_nodes, cfg.max_nodes);
    let ncells = rng.range(2, cfg.max_cells.max(2));
    let nunt = if cfg.untracked { rng.range(1, 2) } else { 0 };
    let mut kinds = Vec::new();
    for i in 0..n {
        let mut k = pick_weighted(rng, &cfg.kinds);
        if cfg.makers && i + 2 < n && rng.chance(1, 4) {
            k = Kind::Maker;
        }
        kinds.push(k);
    }
    if cfg.makers && !kinds.contains(&Kind::Maker) {
        let at = rng.below(n.saturating_sub(1).max(1));
        kinds[at] = Kind::Maker;
    }
    let mut g = G {
        rng,
        cfg,
        ncells,
        nunt,
        kinds: kinds.clone(),
    };
    let mut nodes = Vec::new();
    for i in 0..n {
        let kind = kinds[i];
        let ctx = Ctx {
            multi: kind == Kind::Multi,
            ..Ctx::default()
        };
        let depth = g.rng.range(1, cfg.max_depth);
        let mut node = Node {
            kind,
            body: Expr::Const(0),
            mk: vec![],
            fb: 0,
            lru_maker: false,
            lru_fix: false,
        };
        if kind == Kind::Maker {
            node.lru_maker = cfg.lru_makers && g.rng.chance(1, 2);
            let k = g.rng.range(1, 3);
            for _ in 0..k {
                let small = |g: &mut G| -> Expr {
                    let d = g.rng.below(2);
                    g.expr(i, d, Ctx { noacc: true, ..Ctx::default() })
                };
                let when = if g.rng.chance(1, 3) {
                    Expr::Const(1)
                } else {
                    small(&mut g)
                };
                // identity values from {0,1} so that collisions / disambiguators occur
                let ident = Expr::Bin(Op::Add(2), Box::new(small(&mut g)), Box::new(Expr::Const(0)));
                let specify = if cfg.specify && g.rng.chance(1, 2) {
                    Some(small(&mut g))
                } else {
                    None
                };
                let spec_when = if specify.is_some() && g.rng.chance(1, 2) {
                    Some(small(&mut g))
                } else {
                    None
                };
                let pre_read = specify.is_some() && g.rng.chance(1, 5);
                let twice = cfg.spec_panics && specify.is_some() && g.rng.chance(1, 12);
                node.mk.push(MkEnt {
                    when,
                    ident,
                    t0: small(&mut g),
                    t1: small(&mut g),
                    t2: small(&mut g),
                    specify,
                    spec_when,
                    pre_read,
                    twice,
                });
            }
        } else {
            node.body = g.expr(i, depth, ctx);
        }
        nodes.push(node);
    }
    let ectx = Ctx {
        ent: true,
        nocall: true,
        ..Ctx::default()
    };
    let sctx = Ctx {
        sym: true,
        nocall: true,
        ..Ctx::default()
    };
    // bodies of struct-keyed functions embed their key's fields so aliasing is visible
    let on_ent = Expr::Bin(
        Op::Add(97),
        Box::new(Expr::Bin(
            Op::Add(97),
            Box::new(Expr::SelfField(Fld::Ident)),
            Box::new(Expr::Bin(
                Op::Add(97),
                Box::new(Expr::SelfField(Fld::T0)),
                Box::new(Expr::SelfField(Fld::T0)),
            )),
        )),
        Box::new(g.expr(0, 1, ectx)),
    );
    let spec = Expr::Bin(
        Op::Add(89),
        Box::new(Expr::Bin(
            Op::Add(89),
            Box::new(Expr::SelfField(Fld::T1)),
            Box::new(Expr::Const(7)),
        )),
        Box::new(g.expr(0, 1, ectx)),
    );
    let on_sym = Expr::Bin(
        Op::Add(101),
        Box::new(Expr::Bin(
            Op::Add(101),
            Box::new(Expr::SelfSym),
            Box::new(Expr::Const(11)),
        )),
        Box::new(g.expr(0, 1, sctx)),
    );
    Prog {
        nodes,
        ncells,
        nunt,
        on_ent,
        on_sym,
        spec,
    }
}

/// Cyclic programs over a bit-set lattice. Node bodies are unions/intersections of
/// input masks and calls to *any* node (including later ones and itself), with
/// input-controlled branches so that cycles appear and disappear with writes.
/// marker trick: a trailing `Kind::Maker` entry in the kinds slice enables `PeekZ` generation
fn nonmono_peek(kinds: &[Kind]) -> bool {
    kinds.last() == Some(&Kind::Maker)
}

fn gen_cyclic(rng: &mut Rng, cfg: &GenCfg, c: &CycCfg) -> Prog {
    let n = rng.range(cfg.min_nodes, cfg.max_nodes);
    let ncells = rng.range(2, cfg.max_cells.max(2));
    let mask = ((1u32 << c.bits) - 1) as u16;
    let mut kinds: Vec<Kind> = (0..n).map(|_| pick_weighted(rng, &c.kinds)).collect();
    if c.peek {
        kinds.push(Kind::Maker);
    }
    fn e(rng: &mut Rng, n: usize, ncells: usize, mask: u16, depth: usize, nonmono: bool, kinds: &[Kind]) -> Expr {
        if nonmono_peek(kinds) && rng.chance(1, 7) {
            let (a, b) = (rng.below(n), rng.below(n));
            let g = Box::new(Expr::Bin(
                Op::And,
                Box::new(Expr::In(rng.below(ncells), rng.below(2))),
                Box::new(Expr::Const(mask)),
            ));
            return if PEEK_NZ.load(std::sync::atomic::Ordering::Relaxed) && rng.chance(1, 2) {
                Expr::PeekNZ(a, b, g)
            } else {
                Expr::PeekZ(a, b, g)
            };
        }
        if depth == 0 {
            return match rng.below(10) {
                0..=4 => Expr::Call(rng.below(n)),
                5..=7 => Expr::Bin(
                    Op::And,
                    Box::new(Expr::In(rng.below(ncells), rng.below(2))),
                    Box::new(Expr::Const(mask)),
                ),
                _ => Expr::Const((rng.next() as u16) & mask),
            };
        }
        let _ = kinds;
        match rng.below(100) {
            0..=34 => Expr::Bin(
                Op::Or,
                Box::new(e(rng, n, ncells, mask, depth - 1, nonmono, kinds)),
                Box::new(e(rng, n, ncells, mask, depth - 1, nonmono, kinds)),
            ),
            35..=49 => Expr::Bin(
                Op::And,
                Box::new(e(rng, n, ncells, mask, depth - 1, nonmono, kinds)),
                Box::new(e(rng, n, ncells, mask, depth - 1, nonmono, kinds)),
            ),
            // input-controlled branch: condition reads inputs only (monotone in the lattice vars)
            50..=69 => Expr::If(
                Box::new(Expr::Bin(
                    Op::And,
                    Box::new(Expr::In(rng.below(ncells), rng.below(2))),
                    Box::new(Expr::Const(1 << rng.below(2))),
                )),
                Box::new(e(rng, n, ncells, mask, depth - 1, nonmono, kinds)),
                Box::new(e(rng, n, ncells, mask, depth - 1, nonmono, kinds)),
            ),
            70..=79 if nonmono => {
                let op = *rng.pick(&[Op::Xor, Op::AndNot, Op::Add(mask.max(1))]);
                let bad = Expr::Bin(
                    op,
                    Box::new(e(rng, n, ncells, mask, depth - 1, nonmono, kinds)),
                    Box::new(e(rng, n, ncells, mask, depth - 1, nonmono, kinds)),
                );
                if rng.chance(2, 3) {
                    // guarded by bit 0 of one switch input (cell 0, field a): a single write turns every
                    // guarded operator of the program off, so the cycle converges in a later revision
                    Expr::If(
                        Box::new(Expr::Bin(
                            Op::And,
                            Box::new(Expr::In(0, 0)),
                            Box::new(Expr::Const(1)),
                        )),
                        Box::new(bad),
                        Box::new(e(rng, n, ncells, mask, depth - 1, false, kinds)),
                    )
                } else {
                    bad
                }
            }
            _ => e(rng, n, ncells, mask, 0, nonmono, kinds),
        }
    }
    if c.peek && rng.chance(1, 8) {
        return tmpl_relay(rng, mask, &kinds);
    }
    let mut nodes = Vec::new();
    for &kind in kinds.iter().take(n) {
        let depth = rng.range(1, cfg.max_depth);
        let body = e(rng, n, ncells, mask, depth, c.nonmonotone, &kinds);
        nodes.push(Node {
            kind,
            body,
            mk: vec![],
            fb: (rng.next() as u16) & mask,
            lru_maker: false,
            lru_fix: cfg.lru_fix && kind == Kind::Fix && rng.chance(1, 2),
        });
    }
    Prog {
        nodes,
        ncells,
        nunt: 0,
        on_ent: Expr::Const(0),
        on_sym: Expr::Const(0),
        spec: Expr::Const(0),
    }
}

/// Template seeded from a known-tricky shape: a head that consults a relay only while its own
/// copy is still at bottom (so the relay is left as a stale provisional memo), plus a second
/// cycle reading the relay from outside. Constants, masks and node kinds are random.
fn tmpl_relay(rng: &mut Rng, mask: u16, kinds: &[Kind]) -> Prog {
    let kind = |rng: &mut Rng| -> Kind {
        let ks: Vec<Kind> = kinds.iter().copied().filter(|k| *k != Kind::Maker).collect();
        *rng.pick(&ks)
    };
    let inm = |c: usize, f: usize| {
        Expr::Bin(Op::And, Box::new(Expr::In(c, f)), Box::new(Expr::Const(mask)))
    };
    let mk = |kind: Kind, body: Expr| Node {
        kind,
        body,
        mk: vec![],
        fb: 0,
        lru_maker: false,
        lru_fix: false,
    };
    // n0 head, n1 head_copy, n2 relay, n3 down, n4 down_copy
    let mut nodes = vec![
        mk(kind(rng), Expr::PeekZ(1, 2, Box::new(inm(0, 0)))),
        mk(kind(rng), Expr::Call(0)),
        mk(
            kind(rng),
            Expr::Bin(Op::And, Box::new(Expr::Call(0)), Box::new(inm(0, 1))),
        ),
        mk(
            kind(rng),
            Expr::Bin(Op::Or, Box::new(Expr::Call(4)), Box::new(Expr::Call(2))),
        ),
        mk(
            kind(rng),
            Expr::Bin(Op::And, Box::new(Expr::Call(3)), Box::new(inm(1, 0))),
        ),
    ];
    if rng.chance(1, 2) {
        // an extra reader
        let t = rng.below(5);
        nodes.push(mk(
            kind(rng),
            Expr::Bin(Op::Or, Box::new(Expr::Call(t)), Box::new(inm(1, 1))),
        ));
    }
    Prog {
        nodes,
        ncells: 2,
        nunt: 0,
        on_ent: Expr::Const(0),
        on_sym: Expr::Const(0),
        spec: Expr::Const(0),
    }
}

pub fn gen_history(rng: &mut Rng, cfg: &GenCfg, prog: &Prog) -> Vec<Step> {
    let len = rng.range(cfg.hist_len.0, cfg.hist_len.1);
    let mut h = Vec::new();
    let vmax = if let Some(c) = &cfg.cyclic {
        (1u32 << c.bits) as usize
    } else {
        cfg.vmod as usize
    };
    let makers: Vec<usize> = (0..prog.nodes.len())
        .filter(|&i| prog.nodes[i].kind == Kind::Maker)
        .collect();
    let req = |rng: &mut Rng| -> Req {
        let n = rng.below(prog.nodes.len());
        let r = rng.below(100);
        if cfg.accum_reqs && r < 30 {
            return Req::Accum(n);
        }
        if cfg.intern_reqs && r < 40 && !cfg.intern.is_empty() {
            return Req::Intern(*rng.pick(&cfg.intern), rng.below(cfg.vmod as usize) as u16);
        }
        if cfg.entries_reqs && r < 45 {
            return Req::Entries;
        }
        if !makers.is_empty() && r < 70 {
            let m = *rng.pick(&makers);
            let i = rng.below(3);
            return match rng.below(6) {
                0..=2 => Req::EntField(m, i, *rng.pick(&[Fld::Ident, Fld::T0, Fld::T1, Fld::T2])),
                3..=4 => Req::OnEnt(m, i),
                _ if cfg.specify => Req::Spec(m, i),
                _ => Req::OnEnt(m, i),
            };
        }
        match prog.nodes[n].kind {
            Kind::Multi => Req::Multi(n, rng.below(3) as u16),
            _ => Req::Node(n),
        }
    };
    // model of the current field values (for value-preserving durability changes)
    let mut cur = vec![[0u16; 2]; prog.ncells];
    let profiled = cfg.dur_profile && rng.chance(2, 3);
    if profiled {
        // every field starts out with a common high durability, so whole sub-graphs are
        // validated through the durability shortcut until individual fields are lowered
        let d = *rng.pick(&[Dur::Medium, Dur::High, Dur::High]);
        for cell in 0..prog.ncells {
            for field in 0..2 {
                let val = rng.below(vmax) as u16;
                cur[cell][field] = val;
                h.push(Step::Set {
                    cell,
                    field,
                    val,
                    dur: Some(d),
                });
            }
        }
    }
    // first: a few requests so memos exist
    for _ in 0..rng.range(1, 4) {
        h.push(Step::Req(req(rng)));
    }
    while h.len() < len {
        let r = rng.below(100);
        if r < 30 {
            let cell = rng.below(prog.ncells);
            let field = rng.below(2);
            let dur = if cfg.durabilities && rng.chance(1, 2) {
                let d = *rng.pick(&[Dur::Low, Dur::Low, Dur::Medium, Dur::High, Dur::High]);
                Some(if cfg.never && rng.chance(1, 10) { Dur::Never } else { d })
            } else {
                None
            };
            let mut val = rng.below(vmax) as u16;
            if profiled && dur.is_some() && rng.chance(1, 2) {
                // same value, new durability
                val = cur[cell][field];
            }
            cur[cell][field] = val;
            h.push(Step::Set {
                cell,
                field,
                val,
                dur,
            });
        } else if r < 36 {
            let d = if cfg.durabilities {
                let d = *rng.pick(&[Dur::Low, Dur::Medium, Dur::High]);
                if cfg.never && rng.chance(1, 12) { Dur::Never } else { d }
            } else {
                Dur::Low
            };
            h.push(Step::Synth(d));
        } else if r < 44 && prog.nunt > 0 {
            let d = if cfg.durabilities {
                *rng.pick(&[Dur::Low, Dur::Medium, Dur::High])
            } else {
                Dur::Low
            };
            h.push(Step::Poke {
                unt: rng.below(prog.nunt),
                val: rng.below(vmax) as u16,
                dur: d,
            });
        } else if r < 50 && cfg.lru_steps {
            if rng.chance(1, 3) {
                h.push(Step::Evict);
            } else {
                h.push(Step::SetLru(rng.below(6)));
            }
        } else if cfg.cyclic.is_some() && rng.chance(1, 3) {
            // request every node in a random order (all entry orders get explored)
            let mut order: Vec<usize> = (0..prog.nodes.len()).collect();
            for i in (1..order.len()).rev() {
                order.swap(i, rng.below(i + 1));
            }
            for n in order {
                h.push(Step::Req(Req::Node(n)));
            }
        } else {
            // burst of requests
            for _ in 0..rng.range(1, 4) {
                h.push(Step::Req(req(rng)));
            }
        }
    }
    // finally request every node so stale memos deep in the graph surface
    if rng.chance(1, 2) {
        for n in 0..prog.nodes.len() {
            match prog.nodes[n].kind {
                Kind::Multi => h.push(Step::Req(Req::Multi(n, 0))),
                _ => h.push(Step::Req(Req::Node(n))),
            }
        }
    }
    h
}
