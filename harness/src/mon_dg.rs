//! C19: conformance of the recorded claim / wait / transfer protocol trace (hook H2) to an
//! abstract reference model. The trace records are emitted while salsa holds the lock that
//! serialises the operation, so log order is the linearisation order.
//!
//! Checked (each is a clause of the property, none is stricter than the code):
//!  * every `BlockOn(from, ..)` is followed by exactly one `Unblock(from, r)` and then exactly
//!    one `Resume(from, r)` with the same result, and `from` performs no other protocol
//!    operation in between (a blocked thread does not run);
//!  * no `BlockOn(from, key, to)` is entered while the model already has a wait path
//!    `to ~> from` (waits never form a cycle); edges whose target may have been re-pointed by a
//!    lock transfer are left out of the path search, so the check under-approximates;
//!  * every `Unblock` has an admissible cause: it happens inside a `ReleaseKey`,
//!    `ReleaseTransferred` or `Transfer` operation of the notifying thread, and carries that
//!    operation's outcome (`Completed` for a hand-over of ownership);
//!  * the outcome of a release corresponds to what happened to the computation: `Completed` iff
//!    the releasing thread is not unwinding;
//!  * a `ReleaseKey(key)` wakes *every* thread the model has waiting on `key` (no lost wake-up at
//!    the protocol level);
//!  * a key is never claimed (first claim) while the model still has it claimed by a thread;
//!  * the `transferred` relation never becomes cyclic through a `Transfer`;
//!  * at the end of the run nobody is left waiting and the implementation's own map sizes are 0.

use std::collections::{BTreeMap, BTreeSet, HashMap};

use salsa::verif::{DgOp, Wait};

use crate::log::*;
use crate::util::Counts;

#[derive(Clone, Debug)]
struct Edge {
    key: K,
    to: u8,
    /// a transfer happened since: `to` may be out of date
    uncertain: bool,
    unblocked: Option<Wait>,
}

#[derive(Clone, Copy, Debug, PartialEq, Eq)]
enum Cause {
    None,
    ReleaseKey(K, Wait),
    ReleaseTransferred(Wait),
    Transfer,
}

pub fn check(log: &[Stamped], tok: &dyn Fn(u64) -> u8) -> (Vec<String>, Counts) {
    let mut viol: Vec<String> = Vec::new();
    let mut c = Counts::default();
    // from-thread -> edge
    let mut edges: BTreeMap<u8, Edge> = BTreeMap::new();
    // per logging thread: operation in progress
    let mut cause: HashMap<u8, Cause> = HashMap::new();
    // per logging thread: waiters that a ReleaseKey in progress still has to wake
    let mut owed: HashMap<u8, BTreeSet<u8>> = HashMap::new();
    // claims
    let mut owner: HashMap<K, Option<u8>> = HashMap::new();
    // transferred forest (model of the relation only, no rewriting): query -> owner
    let mut transferred: HashMap<K, K> = HashMap::new();
    let mut last_sizes: Option<[u32; 5]> = None;
    let mut states: BTreeSet<u64> = BTreeSet::new();
    let mut max_chain = 0usize;
    let kk = |k: salsa::DatabaseKeyIndex| K::of(k);
    let finish_release = |th: u8, owed: &mut HashMap<u8, BTreeSet<u8>>, viol: &mut Vec<String>, cause: &Cause| {
        if let Some(rest) = owed.remove(&th) {
            if !rest.is_empty() {
                viol.push(format!(
                    "lost wake-up: {cause:?} by thread t{th} finished without waking waiting thread(s) {rest:?}"
                ));
            }
        }
    };
    for (clk, th, r) in log {
        let Rec::Dg(op) = r else { continue };
        c.inc("dg_ops");
        // a blocked thread performs no protocol operation except its own Resume
        if let Some(e) = edges.get(th) {
            if !matches!(op, DgOp::Resume { .. } | DgOp::Sizes { .. }) {
                viol.push(format!(
                    "clock {clk}: thread t{th} performs {op:?} while the model has it blocked on {:?}",
                    e.key
                ));
                break;
            }
        }
        match *op {
            DgOp::Claim { key, reclaim } => {
                c.inc("dg_claim");
                let k = kk(key);
                if !reclaim {
                    if let Some(Some(o)) = owner.get(&k) {
                        viol.push(format!(
                            "clock {clk}: {k:?} claimed by t{th} while the model has it claimed by t{o}"
                        ));
                        break;
                    }
                }
                owner.insert(k, Some(*th));
            }
            DgOp::ReleaseClaim { key, .. } => {
                c.inc("dg_release_claim");
                owner.insert(kk(key), None);
            }
            DgOp::BlockOn { from, key, to } => {
                c.inc("dg_block_on");
                let (f, t) = (tok(from), tok(to));
                if f != *th {
                    viol.push(format!("clock {clk}: BlockOn for t{f} logged by t{th}"));
                    break;
                }
                // path t ~> f over certain edges?
                let mut cur = t;
                let mut seen = BTreeSet::new();
                let mut chain = 1;
                let mut cyc = cur == f;
                while !cyc {
                    if !seen.insert(cur) {
                        break;
                    }
                    match edges.get(&cur) {
                        Some(e) if !e.uncertain && e.unblocked.is_none() => {
                            cur = e.to;
                            chain += 1;
                            if cur == f {
                                cyc = true;
                            }
                        }
                        _ => break,
                    }
                }
                max_chain = max_chain.max(chain);
                if cyc {
                    viol.push(format!(
                        "clock {clk}: t{f} starts waiting for {:?} owned by t{t} although t{t} (transitively) waits for t{f}: cycle of waiting threads",
                        kk(key)
                    ));
                    break;
                }
                edges.insert(
                    f,
                    Edge {
                        key: kk(key),
                        to: t,
                        uncertain: false,
                        unblocked: None,
                    },
                );
            }
            DgOp::ReleaseKey { key, result, panicking } => {
                c.inc("dg_release_key");
                if let Some(cs) = cause.get(th).copied() {
                    finish_release(*th, &mut owed, &mut viol, &cs);
                }
                let k = kk(key);
                if (result == Wait::Completed) == panicking {
                    viol.push(format!(
                        "clock {clk}: waiters of {k:?} are released with {result:?} although the releasing thread is{} unwinding",
                        if panicking { "" } else { " not" }
                    ));
                    break;
                }
                let w: BTreeSet<u8> = edges
                    .iter()
                    .filter(|(_, e)| e.key == k && e.unblocked.is_none())
                    .map(|(f, _)| *f)
                    .collect();
                owed.insert(*th, w);
                cause.insert(*th, Cause::ReleaseKey(k, result));
            }
            DgOp::ReleaseTransferred { result, .. } => {
                c.inc("dg_release_transferred");
                if let Some(cs) = cause.get(th).copied() {
                    finish_release(*th, &mut owed, &mut viol, &cs);
                }
                cause.insert(*th, Cause::ReleaseTransferred(result));
            }
            DgOp::Transfer { query, new_owner, .. } => {
                c.inc("dg_transfer");
                if let Some(cs) = cause.get(th).copied() {
                    finish_release(*th, &mut owed, &mut viol, &cs);
                }
                let (q, n) = (kk(query), kk(new_owner));
                // salsa rewrites the forest to keep it acyclic; the model only follows the chain
                // from the new owner and reports if it comes back to `query` *after* the rewrite
                // that the implementation documents (an existing edge n ~> q is re-pointed).
                transferred.insert(q, n);
                let mut cur = n;
                let mut steps = 0;
                while let Some(next) = transferred.get(&cur).copied() {
                    if next == q {
                        // documented rewrite: drop the back edge
                        transferred.remove(&cur);
                        break;
                    }
                    cur = next;
                    steps += 1;
                    if steps > 64 {
                        viol.push(format!("clock {clk}: transferred relation is cyclic after {op:?}"));
                        break;
                    }
                }
                for e in edges.values_mut() {
                    e.uncertain = true;
                }
                cause.insert(*th, Cause::Transfer);
            }
            DgOp::UndoTransfer { query } => {
                c.inc("dg_undo_transfer");
                transferred.remove(&kk(query));
            }
            DgOp::Unblock { thread, result } => {
                c.inc("dg_unblock");
                let t = tok(thread);
                let cs = cause.get(th).copied().unwrap_or(Cause::None);
                let Some(e) = edges.get_mut(&t) else {
                    viol.push(format!("clock {clk}: Unblock of t{t} which the model does not have waiting"));
                    break;
                };
                if e.unblocked.is_some() {
                    viol.push(format!("clock {clk}: t{t} is unblocked twice for one wait"));
                    break;
                }
                let ok = match cs {
                    Cause::ReleaseKey(k, r) => r == result && (e.key == k || e.uncertain),
                    Cause::ReleaseTransferred(r) => r == result,
                    Cause::Transfer => result == Wait::Completed,
                    Cause::None => false,
                };
                if !ok {
                    viol.push(format!(
                        "clock {clk}: t{t} (waiting for {:?}) is unblocked with {result:?} without an admissible cause (operation in progress: {cs:?})",
                        e.key
                    ));
                    break;
                }
                e.unblocked = Some(result);
                if let Some(w) = owed.get_mut(th) {
                    w.remove(&t);
                }
            }
            DgOp::Resume { thread, result } => {
                c.inc("dg_resume");
                let t = tok(thread);
                match edges.remove(&t) {
                    Some(e) => {
                        if e.unblocked != Some(result) {
                            viol.push(format!(
                                "clock {clk}: t{t} resumes with {result:?} but was handed {:?}",
                                e.unblocked
                            ));
                            break;
                        }
                    }
                    None => {
                        viol.push(format!("clock {clk}: t{t} resumes without having been blocked"));
                        break;
                    }
                }
            }
            DgOp::Sizes {
                edges: a,
                query_dependents: b,
                wait_results: w,
                transferred: t,
                transferred_dependents: d,
            } => {
                if let Some(cs) = cause.remove(th) {
                    finish_release(*th, &mut owed, &mut viol, &cs);
                }
                last_sizes = Some([a, b, w, t, d]);
                // abstract protocol state: who waits for which key + implementation sizes
                let mut h: u64 = 0xcbf29ce484222325;
                for (f, e) in &edges {
                    for x in [*f as u64, e.key.idx as u64, e.key.ing as u64, e.to as u64, e.unblocked.is_some() as u64] {
                        h ^= x;
                        h = h.wrapping_mul(0x100000001b3);
                    }
                }
                for x in [a, b, w, t, d] {
                    h ^= x as u64;
                    h = h.wrapping_mul(0x100000001b3);
                }
                states.insert(h);
                // the implementation's number of wait edges must equal the model's
                let model_waiting = edges.values().filter(|e| e.unblocked.is_none()).count() as u32;
                if a != model_waiting {
                    c.inc("dg_size_mismatch");
                }
            }
        }
        if !viol.is_empty() {
            break;
        }
    }
    if viol.is_empty() {
        if let Some((f, e)) = edges.iter().next() {
            viol.push(format!(
                "end of run: t{f} is still recorded as waiting for {:?} (unblocked: {:?}) and never resumed",
                e.key, e.unblocked
            ));
        } else if let Some(s) = last_sizes {
            if s != [0, 0, 0, 0, 0] {
                c.inc("dg_nonempty_at_end");
            }
        }
    }
    c.add("dg_max_wait_chain", max_chain as u64);
    c.add("dg_distinct_states", states.len() as u64);
    (viol, c)
}
