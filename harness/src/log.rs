//! Shared event log. Records are appended to per-thread buffers and stamped by one
//! global logical clock; the merged log is sorted by clock.

use std::sync::Mutex;
use std::sync::atomic::{AtomicU64, Ordering};

use salsa::verif::{DgOp, Site, Wait};

use crate::prog::{NodeId, Req};
use crate::refint::PanicClass;

pub const MAX_THREADS: usize = 12;

/// A salsa key: (ingredient, slot index, generation).
#[derive(Clone, Copy, PartialEq, Eq, Hash, Debug, PartialOrd, Ord)]
pub struct K {
    pub ing: u32,
    pub idx: u32,
    pub gener: u32,
}

impl K {
    pub fn of(k: salsa::DatabaseKeyIndex) -> K {
        K {
            ing: salsa::verif::ingredient_index_u32(k.ingredient_index()),
            idx: k.key_index().index(),
            gener: k.key_index().generation(),
        }
    }
    pub fn id(ing: u32, id: salsa::Id) -> K {
        K {
            ing,
            idx: id.index(),
            gener: id.generation(),
        }
    }
}

#[derive(Clone, Copy, PartialEq, Eq, Hash, Debug, PartialOrd, Ord)]
pub enum FnK {
    Plain,
    NoEq,
    Lru,
    Multi,
    Maker,
    Fix,
    FixJ,
    Fb,
    OnEnt,
    Spec,
    OnSym,
}

/// A body activation: which generic fn, which node (or maker), argument, and the salsa id of the key.
#[derive(Clone, Copy, PartialEq, Eq, Hash, Debug, PartialOrd, Ord)]
pub struct ActK {
    pub f: FnK,
    pub node: u32,
    pub arg: u16,
    pub key_idx: u32,
    pub key_gen: u32,
}

#[derive(Clone, Copy, PartialEq, Eq, Hash, Debug)]
pub enum ReadK {
    In(u32, u32),
    Unt(u32),
    /// call of a node fn (node, arg)
    Call(FnK, u32, u16),
    /// struct-keyed call: (fn, key idx, key gen)
    CallOn(FnK, u32, u32),
    /// field of an Ent (id idx, gen, field no)
    Field(u32, u32, u8),
    /// interned read back (sym type, id idx, gen)
    Interned(u8, u32, u32),
}

#[derive(Clone, Debug, PartialEq, Eq)]
pub enum Ev {
    DidValidate(K),
    WillBlockOn(K, u64),
    WillExecute(K),
    WillIterate(K, u32),
    DidFinalize(K, u32),
    WillCheckCancellation,
    DidSetCancellationFlag,
    WillDiscardStaleOutput(K, K),
    DidDiscard(K),
    DidDiscardAccumulated(K),
    DidIntern(K, u64),
    DidReuseInterned(K, u64),
    DidValidateInterned(K, u64),
}

#[derive(Clone, Debug, PartialEq, Eq)]
pub enum Outcome {
    Val(u16),
    List(Vec<u32>),
    Ents(Vec<(u32, u32)>),
    Panic(PanicClass, String),
}

#[derive(Clone, Debug, PartialEq, Eq)]
pub enum Rec {
    Ev(Ev),
    Enter(ActK),
    Read(ReadK, u16),
    /// struct created: (ent idx, gen, [ident,t0,t1,t2], maker node, position in vec)
    Made(u32, u32, [u16; 4], u32, u32),
    /// (sym type, value, id idx, id gen)
    Interned(u8, u16, u32, u32),
    Pushed(u32),
    Specified(u32, u32, u16),
    Exit(ActK, u16),
    Unwound(ActK),
    /// cycle_initial / cycle_fn / cycle_result invoked for node
    CycleInitial(NodeId),
    CycleFn(NodeId, u32, u16, u16),
    // ---- top level ----
    Call(u32, Req),
    Ret(u32, Outcome),
    /// (revision after the write, kind)
    WriteBegin(u32),
    WriteDone(u32, u64),
    CloneHandle(u32),
    BeforeDrop(u32),
    AfterDrop(u32),
    Cancel(u32),
    /// `cancel()` on the token of handle h has returned
    CancelDone(u32),
    Note(&'static str),
    /// model: field (cell, field) now has value and durability (0..3)
    SetField(u32, u32, u16, u8),
    /// model: untracked cell changed
    SetUnt(u32, u16),
    /// model: lru capacity / eviction request
    SetLru(u32),
    Evict,
    Synth(u8),
    /// reference: node activations (node, arg) a from-scratch evaluation of the preceding request calls
    RefCalls(Vec<(u32, u16)>),
    /// observation: number of live result values of lru node n
    LiveSample(u32, i64),
    // ---- hooks ----
    Dg(DgOp),
    Fp(Site),
    Fault(u32, u64),
    /// a dependent checked its dependency on interned value K; `true` = slot was reclaimed
    InternChecked(K, bool),
}

pub type Stamped = (u64, u8, Rec);

pub struct Log {
    clock: AtomicU64,
    tokens: [AtomicU64; MAX_THREADS],
    bufs: Vec<Mutex<Vec<Stamped>>>,
    /// when true the clock uses SeqCst (monitor soundness), else Relaxed (do not add
    /// happens-before edges that could hide races from TSan/Miri)
    pub strong: bool,
    pub enabled: std::sync::atomic::AtomicBool,
}

impl Log {
    pub fn new(strong: bool) -> Self {
        Log {
            clock: AtomicU64::new(1),
            tokens: Default::default(),
            bufs: (0..MAX_THREADS).map(|_| Mutex::new(Vec::new())).collect(),
            strong,
            enabled: std::sync::atomic::AtomicBool::new(true),
        }
    }

    /// Small index of the calling thread (registered on first use).
    pub fn th(&self) -> u8 {
        let tok = salsa::verif::current_thread_token() | 1;
        self.th_of(tok)
    }

    pub fn th_of_token(&self, tok: u64) -> u8 {
        self.th_of(tok | 1)
    }

    fn th_of(&self, tok: u64) -> u8 {
        for (i, t) in self.tokens.iter().enumerate() {
            let cur = t.load(Ordering::Relaxed);
            if cur == tok {
                return i as u8;
            }
            if cur == 0 {
                match t.compare_exchange(0, tok, Ordering::Relaxed, Ordering::Relaxed) {
                    Ok(_) => return i as u8,
                    Err(now) if now == tok => return i as u8,
                    Err(_) => {}
                }
            }
        }
        (MAX_THREADS - 1) as u8
    }

    pub fn now(&self) -> u64 {
        self.clock.load(Ordering::Relaxed)
    }

    #[inline]
    pub fn push(&self, r: Rec) -> u64 {
        if !self.enabled.load(Ordering::Relaxed) {
            return 0;
        }
        let th = self.th();
        let c = if self.strong {
            self.clock.fetch_add(1, Ordering::SeqCst)
        } else {
            self.clock.fetch_add(1, Ordering::Relaxed)
        };
        self.bufs[th as usize].lock().unwrap().push((c, th, r));
        c
    }

    /// Merge all buffers (call at quiescence).
    pub fn take(&self) -> Vec<Stamped> {
        let mut all = Vec::new();
        for b in &self.bufs {
            all.append(&mut b.lock().unwrap());
        }
        all.sort_by_key(|x| x.0);
        all
    }

    /// Copies of the records stamped at or after `clock` (the log keeps them).
    pub fn since(&self, clock: u64) -> Vec<Stamped> {
        let mut all = Vec::new();
        for b in &self.bufs {
            let b = b.lock().unwrap();
            let from = b.partition_point(|x| x.0 < clock);
            all.extend(b[from..].iter().cloned());
        }
        all.sort_by_key(|x| x.0);
        all
    }

    pub fn clear(&self) {
        for b in &self.bufs {
            b.lock().unwrap().clear();
        }
    }
}

pub fn wait_name(w: Wait) -> &'static str {
    match w {
        Wait::Completed => "Completed",
        Wait::Panicked => "Panicked",
        Wait::Cancelled => "Cancelled",
    }
}
