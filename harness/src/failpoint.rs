//! Delay injection at salsa's failpoints (between critical sections) for the OS-thread engine.

use salsa::verif::Site;

use crate::util::mix;
use crate::world::Ctx;

/// Profiles: 1 = uniform light, 2 = delay after claim / before release (hold claims longer),
/// 3 = delay wakers and blockers, 4 = delay the writer around the cancellation flag,
/// 5 = heavy everywhere, 6 = light at the failpoints, slow event callback (see `event_delay`).
pub fn visit(ctx: &Ctx, site: Site, profile: u64, seed: u64, n: u64) {
    let th = ctx.log.th() as u64;
    let r = mix(seed ^ (th << 48), n);
    let weight = match (profile, site) {
        (1, _) => 3,
        (2, Site::FetchAfterClaim | Site::McaAfterClaim | Site::AfterExecute | Site::BeforeClaimRelease | Site::AfterInsertMemo) => 12,
        (2, _) => 1,
        (3, Site::BeforeClaimRelease | Site::AfterBlockOn | Site::FetchBeforeClaim | Site::McaBeforeClaim) => 12,
        (3, _) => 1,
        (4, Site::CancelAfterFlag | Site::CancelAfterWait | Site::BetweenIterations | Site::BeforeExecute) => 14,
        (4, _) => 1,
        (5, _) => 10,
        _ => 2,
    };
    let roll = r % 32;
    if roll >= weight {
        return;
    }
    match (r >> 8) % 4 {
        0 => crate::sync::yield_now(),
        1 => {
            // spin 1-50us
            let t = std::time::Instant::now();
            let us = 1 + (r >> 16) % 50;
            while t.elapsed().as_micros() < us as u128 {
                std::hint::spin_loop();
            }
        }
        2 => crate::sync::yield_now(),
        _ => crate::sync::sleep_us(50 + (r >> 16) % 450),
    }
}

/// Delay inside the user's event callback for deletion / interning events (the callback runs in
/// the middle of salsa's clean-up of a discarded struct or of a slot reuse). Off unless a
/// concurrent case is running: shuttle gets a scheduling point, OS threads a seeded delay.
pub fn event_delay(ctx: &Ctx) {
    if !crate::sink::EV_DELAY.load(std::sync::atomic::Ordering::Relaxed) {
        return;
    }
    #[cfg(feature = "shuttle")]
    {
        let _ = ctx;
        crate::sync::yield_now();
    }
    #[cfg(not(feature = "shuttle"))]
    {
        use std::sync::atomic::Ordering;
        let prof = crate::sink::FP_PROFILE.load(Ordering::Relaxed);
        if prof == 0 {
            return;
        }
        let n = crate::sink::FP_VISITS.fetch_add(1, Ordering::Relaxed);
        let th = ctx.log.th() as u64;
        let r = mix(crate::sink::FP_SEED.load(Ordering::Relaxed) ^ (th << 48) ^ 0x5eed, n);
        if prof == 6 {
            // "slow callback" profile: the thread that is cleaning up sleeps long enough for the
            // other threads to get through several requests
            if r % 2 == 0 {
                crate::sync::sleep_us(100 + (r >> 16) % 700);
            }
            return;
        }
        match r % 8 {
            0 | 1 => crate::sync::yield_now(),
            2 => crate::sync::sleep_us(20 + (r >> 16) % 300),
            _ => {}
        }
    }
}
