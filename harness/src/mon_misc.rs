//! Monitors for C04 (untracked re-execution), C06/C07 (identity), C08/C09 (interning), C10 (specify).

use std::collections::{BTreeMap, BTreeSet, HashMap};

use crate::log::*;
use crate::mon::{self, Exec};
use crate::prog::*;
use crate::util::Counts;
use crate::world::Ctx;

fn rev_index(log: &[Stamped]) -> Vec<u64> {
    // revision at each log position
    let mut rev = 1u64;
    log.iter()
        .map(|(_, _, r)| {
            if let Rec::WriteDone(_, r2) = r {
                rev = *r2;
            }
            rev
        })
        .collect()
}

// ------------------------------------------------------------------ C04

/// In revision R, a top-level request that returned a value and whose from-scratch evaluation
/// calls Q, where Q's last execution before R read untracked state, must (re-)execute Q
/// before returning, unless Q already executed in R.
pub fn check_untracked(_prog: &Prog, log: &[Stamped]) -> (Vec<String>, Counts) {
    let mut viol = Vec::new();
    let mut c = Counts::default();
    let execs = mon::executions(log);
    let mut by_act: HashMap<(FnK, u32, u16), Vec<&Exec>> = HashMap::new();
    for e in &execs {
        if e.value.is_some() {
            by_act.entry((e.act.f, e.act.node, e.act.arg)).or_default().push(e);
        }
    }
    let revs = rev_index(log);
    let mut call: Option<(u64, Req)> = None;
    let mut ret: Option<(u64, bool)> = None;
    for (i, (clk, _, r)) in log.iter().enumerate() {
        match r {
            Rec::Call(_, q) => {
                call = Some((*clk, q.clone()));
                ret = None;
            }
            Rec::Ret(_, o) => ret = Some((*clk, !matches!(o, Outcome::Panic(..)))),
            Rec::RefCalls(list) => {
                let (Some((c0, q)), Some((c1, ok))) = (call.clone(), ret) else {
                    continue;
                };
                if !ok {
                    continue;
                }
                let rnow = revs[i];
                for (n, a) in list {
                    let fk = crate::world::fnk_of(_prog.nodes[*n as usize].kind);
                    let Some(es) = by_act.get(&(fk, *n, *a)) else {
                        continue;
                    };
                    let before = es.iter().filter(|e| e.end < c0).last();
                    let Some(b) = before else { continue };
                    if !b.untracked || b.rev >= rnow {
                        continue;
                    }
                    let during = es.iter().find(|e| e.start > c0 && e.end < c1);
                    match during {
                        Some(d) => {
                            c.inc("untracked_reexec");
                            if d.value == b.value {
                                c.inc("untracked_equal_reexec");
                            } else {
                                c.inc("untracked_changed_reexec");
                            }
                        }
                        None => {
                            viol.push(format!(
                                "request {q:?} in rev {rnow} returned without re-executing n{n}({a}) whose last execution (rev {}) read untracked state",
                                b.rev
                            ));
                            return (viol, c);
                        }
                    }
                }
            }
            _ => {}
        }
    }
    (viol, c)
}

// ------------------------------------------------------------------ C06 / C07

/// Collide mode (all identity values hash alike): which occurrence keeps which id is decided by
/// creation order, so the identity model of `check_identity` does not apply. What must still hold:
/// an id (slot and generation) never denotes two different identity values over the whole history,
/// and one execution never creates two structs with the same id.
pub fn check_id_functional(log: &[Stamped]) -> (Vec<String>, Counts) {
    let mut viol = Vec::new();
    let mut c = Counts::default();
    let mut denotes: HashMap<(u32, u32), (u16, u32)> = HashMap::new();
    for e in mon::executions(log) {
        if e.act.f != FnK::Maker || e.value.is_none() {
            continue;
        }
        let mut here: BTreeSet<(u32, u32)> = BTreeSet::new();
        for (idx, g, f, _pos) in &e.made {
            if !here.insert((*idx, *g)) {
                viol.push(format!(
                    "maker n{} created two structs with the same id ({idx},{g}) in one execution",
                    e.act.node
                ));
            }
            match denotes.get(&(*idx, *g)) {
                Some((old, m)) if *old != f[0] => {
                    viol.push(format!(
                        "id ({idx},{g}) was given to a struct with identity value {old} (maker n{m}) and now to one with identity value {} (maker n{}): structs with different identity values must be distinct",
                        f[0], e.act.node
                    ));
                }
                Some(_) => c.inc("colliding_identity_kept"),
                None => {
                    c.inc("colliding_identity_new_id");
                    denotes.insert((*idx, *g), (f[0], e.act.node));
                }
            }
        }
        if !viol.is_empty() {
            break;
        }
    }
    (viol, c)
}

pub fn check_identity(prog: &Prog, log: &[Stamped], ctx: &Ctx) -> (Vec<String>, Counts) {
    let mut viol = Vec::new();
    let mut c = Counts::default();
    let ent_ing = *ctx.ent_ing.get().unwrap_or(&u32::MAX);
    let execs = mon::executions(log);
    // completed maker executions by end clock
    let mut maker_done: BTreeMap<u64, &Exec> = BTreeMap::new();
    for e in &execs {
        if e.act.f == FnK::Maker && e.value.is_some() {
            maker_done.insert(e.end, e);
        }
    }
    // identity map of the previous completed execution per maker
    let mut prev: HashMap<u32, HashMap<(u16, u32), (u32, u32)>> = HashMap::new();
    // live structs: id -> (maker, ident, occ)
    let mut live: BTreeMap<(u32, u32), (u32, u16, u32)> = BTreeMap::new();
    // highest generation seen per slot
    let mut slot_gen: HashMap<u32, u32> = HashMap::new();
    // discards still owed: (idx, gen) -> description
    let mut owed: BTreeMap<(u32, u32), String> = BTreeMap::new();
    for (clk, _, r) in log {
        match r {
            Rec::Ev(Ev::DidDiscard(k)) if k.ing == ent_ing => {
                live.remove(&(k.idx, k.gener));
                owed.remove(&(k.idx, k.gener));
                c.inc("struct_deletions");
            }
            Rec::Exit(a, _) if a.f == FnK::Maker => {
                let Some(e) = maker_done.get(clk) else { continue };
                let m = a.node;
                let mut cur: HashMap<(u16, u32), (u32, u32)> = HashMap::new();
                let mut occ: HashMap<u16, u32> = HashMap::new();
                let mut ids_here: BTreeSet<(u32, u32)> = BTreeSet::new();
                for (idx, g, f, _pos) in &e.made {
                    let o = occ.entry(f[0]).or_insert(0);
                    let key = (f[0], *o);
                    *o += 1;
                    cur.insert(key, (*idx, *g));
                    if !ids_here.insert((*idx, *g)) {
                        viol.push(format!(
                            "maker n{m} created two structs with the same id ({idx},{g}) in one execution"
                        ));
                    }
                    let old = prev.get(&m).and_then(|p| p.get(&key)).copied();
                    match old {
                        Some(oid) => {
                            if oid != (*idx, *g) {
                                viol.push(format!(
                                    "maker n{m}: struct with identity (ident={}, occurrence {}) had id {oid:?} in the previous execution and {:?} now",
                                    key.0, key.1, (*idx, *g)
                                ));
                            } else {
                                c.inc("identity_preserved");
                            }
                        }
                        None => {
                            // a new identity must not alias a live struct
                            if let Some(owner) = live.get(&(*idx, *g)) {
                                if *owner != (m, key.0, key.1) {
                                    viol.push(format!(
                                        "maker n{m}: new struct (ident={}, occ {}) received id ({idx},{g}) which is live for {owner:?}",
                                        key.0, key.1
                                    ));
                                }
                            }
                            match slot_gen.get(idx) {
                                Some(pg) if *pg >= *g => {
                                    viol.push(format!(
                                        "maker n{m}: slot {idx} reused for a new identity without a newer generation (had {pg}, got {g})"
                                    ));
                                }
                                Some(_) => c.inc("tracked_slot_reuse"),
                                None => {}
                            }
                        }
                    }
                    let sg = slot_gen.entry(*idx).or_insert(*g);
                    *sg = (*sg).max(*g);
                    live.insert((*idx, *g), (m, key.0, key.1));
                }
                // structs of the previous execution that were not recreated must be discarded
                if let Some(p) = prev.get(&m) {
                    for (key, id) in p {
                        if !cur.contains_key(key) && live.contains_key(id) {
                            owed.insert(
                                *id,
                                format!(
                                    "struct {id:?} (maker n{m}, ident={}, occ {}) was not recreated but no DidDiscard was observed",
                                    key.0, key.1
                                ),
                            );
                        }
                    }
                }
                prev.insert(m, cur);
            }
            Rec::Ret(_, out) => {
                if let Some((_, msg)) = owed.iter().next() {
                    viol.push(msg.clone());
                }
                if let Outcome::Ents(list) = out {
                    c.inc("entries_checked");
                    // `entries()` reports slot positions (ids without generation): compare slots only
                    let model: Vec<u32> = live.keys().map(|k| k.0).collect();
                    let got: Vec<u32> = list.iter().map(|k| k.0).collect();
                    if got != model {
                        viol.push(format!(
                            "enumeration of tracked structs returned {list:?}, model of live structs says {model:?}"
                        ));
                    }
                }
            }
            _ => {}
        }
        if !viol.is_empty() {
            break;
        }
    }
    let _ = prog;
    (viol, c)
}

// ------------------------------------------------------------------ C08 / C09

pub fn check_retention(_prog: &Prog, log: &[Stamped], ctx: &Ctx) -> (Vec<String>, Counts) {
    let mut viol = Vec::new();
    let mut c = Counts::default();
    let sym_ing = *ctx.sym_ing.get().unwrap_or(&[u32::MAX; 5]);
    let ty_of = |ing: u32| sym_ing.iter().position(|x| *x == ing);
    let revs_of = |t: usize| Sym::ALL[t].revisions();
    let revs = rev_index(log);
    // model durabilities of input fields
    let mut durs: HashMap<(u32, u32), u8> = HashMap::new();
    // per thread: stack of frames (only_inputs, min_dur)
    let mut frames: HashMap<u8, Vec<(bool, u8)>> = HashMap::new();
    // per type: use revisions
    let mut uses: Vec<BTreeSet<u64>> = vec![BTreeSet::new(); 5];
    // per (type, idx, gen): last use revision, definitely-high flag, value
    #[derive(Default, Clone)]
    struct Slot {
        last_use: u64,
        high: bool,
        value: Option<u16>,
    }
    let mut slots: HashMap<(usize, u32, u32), Slot> = HashMap::new();
    // per (type, value): current id
    let mut cur_id: HashMap<(usize, u16), (u32, u32)> = HashMap::new();
    let mut cur_id_rev: HashMap<(usize, u16), u64> = HashMap::new();
    // reused slots: (type, idx) -> highest generation that has been replaced
    let mut replaced: HashMap<(usize, u32), u32> = HashMap::new();
    // last interned event per thread (created?)
    let mut last_ev_created: HashMap<u8, Option<K>> = HashMap::new();
    for (i, (_clk, th, r)) in log.iter().enumerate() {
        let rev = revs[i];
        match r {
            Rec::SetField(cell, f, _, d) => {
                durs.insert((*cell, *f), *d);
            }
            Rec::Enter(_) => frames.entry(*th).or_default().push((true, 3)),
            Rec::Exit(..) | Rec::Unwound(_) => {
                frames.entry(*th).or_default().pop();
            }
            Rec::Read(k, _) => {
                if let Some(f) = frames.entry(*th).or_default().last_mut() {
                    match k {
                        ReadK::In(cc, ff) => {
                            f.1 = f.1.min(durs.get(&(*cc, *ff)).copied().unwrap_or(0));
                        }
                        _ => f.0 = false,
                    }
                }
            }
            Rec::Ev(Ev::DidIntern(k, _)) => {
                if let Some(t) = ty_of(k.ing) {
                    last_ev_created.insert(*th, Some(*k));
                    let s = slots.entry((t, k.idx, k.gener)).or_default();
                    s.last_use = s.last_use.max(rev);
                }
            }
            Rec::InternChecked(k, _changed) => {
                // a dependent checked a dependency on a value of this type: the type was used
                if let Some(t) = ty_of(k.ing) {
                    uses[t].insert(rev);
                    c.inc("interned_dependency_checks");
                }
            }
            Rec::Ev(Ev::DidValidateInterned(k, _)) => {
                if let Some(t) = ty_of(k.ing) {
                    let s = slots.entry((t, k.idx, k.gener)).or_default();
                    s.last_use = s.last_use.max(rev);
                    c.inc("interned_revalidations");
                }
            }
            Rec::Ev(Ev::DidReuseInterned(k, _)) => {
                let Some(t) = ty_of(k.ing) else { continue };
                last_ev_created.insert(*th, Some(*k));
                c.inc("retention_reuses_checked");
                let prev_id = (t, k.idx, k.gener.wrapping_sub(1));
                let Some(r_cfg) = revs_of(t) else {
                    viol.push(format!(
                        "interned type {:?} disables collection but slot {} was reused (gen {})",
                        Sym::ALL[t],
                        k.idx,
                        k.gener
                    ));
                    break;
                };
                let mut u: Vec<u64> = uses[t].iter().copied().filter(|x| *x > 1).collect();
                if rev > 1 && !u.contains(&rev) {
                    u.push(rev);
                }
                u.sort();
                if u.len() < r_cfg {
                    viol.push(format!(
                        "interned type {:?} (revisions={r_cfg}): slot {} reused in rev {rev} although only {} revisions used the type so far",
                        Sym::ALL[t],
                        k.idx,
                        u.len()
                    ));
                    break;
                }
                let oldest = u[u.len() - r_cfg];
                let p = slots.get(&prev_id).cloned().unwrap_or_default();
                if p.last_use >= oldest {
                    viol.push(format!(
                        "interned type {:?} (revisions={r_cfg}): slot {} (value {:?}) reused in rev {rev} although it was used in rev {} and the last {r_cfg} use-revisions start at {oldest} (use revisions {u:?})",
                        Sym::ALL[t], k.idx, p.value, p.last_use
                    ));
                    break;
                }
                if p.high {
                    viol.push(format!(
                        "interned type {:?}: slot {} (value {:?}) reused in rev {rev} although it was interned by a query whose inputs were all of durability > LOW (or outside any query)",
                        Sym::ALL[t], k.idx, p.value
                    ));
                    break;
                }
                replaced.insert((t, k.idx), k.gener.wrapping_sub(1));
                let s = slots.entry((t, k.idx, k.gener)).or_default();
                s.last_use = s.last_use.max(rev);
            }
            Rec::Interned(t, v, idx, g) => {
                let t = *t as usize;
                uses[t].insert(rev);
                let s = slots.entry((t, *idx, *g)).or_default();
                s.last_use = s.last_use.max(rev);
                // functional id <-> value
                match s.value {
                    Some(old) if old != *v => {
                        viol.push(format!(
                            "interned type {:?}: id ({idx},{g}) denotes value {old} and value {v}",
                            Sym::ALL[t]
                        ));
                        break;
                    }
                    _ => s.value = Some(*v),
                }
                // durability class at the moment of interning
                let created = matches!(last_ev_created.insert(*th, None), Some(Some(k)) if k.idx == *idx && k.gener == *g);
                match frames.entry(*th).or_default().last() {
                    Some((true, d)) if *d >= 1 => s.high = true,
                    None if created => s.high = true,
                    _ => {}
                }
                // identity continuity
                match cur_id.get(&(t, *v)).copied() {
                    Some(old) if old != (*idx, *g) && cur_id_rev.get(&(t, *v)) == Some(&rev) => {
                        viol.push(format!(
                            "interned type {:?}: value {v} has the two handles {old:?} and ({idx},{g}) in one revision ({rev})",
                            Sym::ALL[t]
                        ));
                        break;
                    }
                    Some(old) if old != (*idx, *g) => {
                        let was_replaced = replaced.get(&(t, old.0)).is_some_and(|rg| *rg >= old.1);
                        if !was_replaced {
                            viol.push(format!(
                                "interned type {:?}: value {v} changed identity from {old:?} to ({idx},{g}) although its slot was never reclaimed",
                                Sym::ALL[t]
                            ));
                            break;
                        }
                        c.inc("interned_reinterned_after_reclaim");
                    }
                    Some(_) => c.inc("interned_identity_kept"),
                    None => {}
                }
                cur_id.insert((t, *v), (*idx, *g));
                cur_id_rev.insert((t, *v), rev);
            }
            _ => {}
        }
    }
    (viol, c)
}

// ------------------------------------------------------------------ C10

pub fn check_specify(_prog: &Prog, log: &[Stamped]) -> (Vec<String>, Counts) {
    let mut viol = Vec::new();
    let mut c = Counts::default();
    let revs = rev_index(log);
    // (idx, gen) -> revision of the latest specification
    let mut specified_in: HashMap<(u32, u32), u64> = HashMap::new();
    let mut maker_exec_rev: HashMap<u64, bool> = HashMap::new();
    for (i, (_clk, _th, r)) in log.iter().enumerate() {
        let rev = revs[i];
        match r {
            Rec::Enter(a) if a.f == FnK::Maker => {
                maker_exec_rev.insert(rev, true);
            }
            Rec::Specified(idx, g, _) => {
                specified_in.insert((*idx, *g), rev);
            }
            Rec::Enter(a) if a.f == FnK::Spec => {
                if specified_in.get(&(a.key_idx, a.key_gen)) == Some(&rev) {
                    viol.push(format!(
                        "q_spec body executed for struct ({},{}) in rev {rev} after a value was specified for it in the same revision",
                        a.key_idx, a.key_gen
                    ));
                    break;
                }
                c.inc("spec_computed");
            }
            Rec::Read(ReadK::CallOn(FnK::Spec, idx, g), _) => {
                if specified_in.contains_key(&(*idx, *g)) {
                    c.inc("spec_served");
                    if !maker_exec_rev.contains_key(&rev) {
                        c.inc("spec_served_creator_green");
                    }
                }
            }
            Rec::Ret(_, Outcome::Val(_)) => {
                // top-level q_spec requests are counted through the preceding Call
            }
            Rec::Call(_, Req::Spec(..)) => c.inc("spec_requests"),
            _ => {}
        }
    }
    // a top-level Spec request that returned without any body execution of q_spec in between
    let mut in_spec_req = false;
    let mut body_ran = false;
    for (i, (_c, _t, r)) in log.iter().enumerate() {
        match r {
            Rec::Call(_, Req::Spec(..)) => {
                in_spec_req = true;
                body_ran = false;
            }
            Rec::Enter(a) if a.f == FnK::Spec => body_ran = true,
            Rec::Ret(_, Outcome::Val(v)) if in_spec_req => {
                in_spec_req = false;
                if !body_ran && *v != ABSENT {
                    c.inc("spec_served");
                    if !maker_exec_rev.contains_key(&revs[i]) {
                        c.inc("spec_served_creator_green");
                    }
                }
            }
            Rec::Ret(..) => in_spec_req = false,
            _ => {}
        }
    }
    (viol, c)
}
