//! Monitors for C04, C06/C07, C09, C10.
use crate::log::Stamped;
use crate::prog::Prog;
use crate::util::Counts;

pub fn check_untracked(_prog: &Prog, _log: &[Stamped]) -> (Vec<String>, Counts) {
    (vec![], Counts::default())
}
pub fn check_identity(_prog: &Prog, _log: &[Stamped]) -> (Vec<String>, Counts) {
    (vec![], Counts::default())
}
pub fn check_retention(_prog: &Prog, _log: &[Stamped]) -> (Vec<String>, Counts) {
    (vec![], Counts::default())
}
pub fn check_specify(_prog: &Prog, _log: &[Stamped]) -> (Vec<String>, Counts) {
    (vec![], Counts::default())
}
