#![cfg(all(feature = "persistence", feature = "inventory"))]
use salsa::{Database, Setter};
use salsa::plumbing::ZalsaDatabase;

#[salsa::input(persist)]
struct Inp { #[returns(copy)] a: u32, #[returns(copy)] b: u32 }

#[salsa::tracked(persist)]
struct Ent<'db> { #[returns(copy)] ident: u32, #[tracked] #[returns(copy)] t0: u32 }

#[salsa::tracked(persist)]
fn maker<'db>(db: &'db dyn Database, i: Inp) -> Vec<Ent<'db>> {
    vec![Ent::new(db, 0, i.a(db))]
}

/// A persisted function keyed by the tracked struct (it does not even have to be called).
#[salsa::tracked(persist, returns(copy))]
fn on_ent<'db>(db: &'db dyn Database, e: Ent<'db>) -> u32 { e.t0(db) + 1 }

#[test]
fn tracked_field_is_updated_after_restore() {
    let mut db = salsa::DatabaseImpl::new();
    let i = Inp::new(&db, 0, 0);
    assert_eq!(maker(&db, i)[0].t0(&db), 0);
    i.set_a(&mut db).to(2);
    // serialize in the revision of the write, before anything was recomputed
    let text = serde_json::to_string(&<dyn salsa::Database>::as_serialize(&mut db)).unwrap();
    let mut db2 = salsa::DatabaseImpl::new();
    <dyn salsa::Database>::deserialize(&mut db2, &mut serde_json::Deserializer::from_str(&text)).unwrap();
    let i2: Inp = Inp::ingredient(&db2).entries(db2.zalsa()).next().unwrap().as_struct();
    assert_eq!(maker(&db2, i2)[0].t0(&db2), 2, "restored database: the struct is re-created with t0 = a = 2");
    let _ = on_ent;
}

#[test]
fn serializing_does_not_disturb_the_original_database() {
    let mut db = salsa::DatabaseImpl::new();
    let i = Inp::new(&db, 0, 0);
    assert_eq!(maker(&db, i)[0].t0(&db), 0);
    i.set_a(&mut db).to(2);
    let _text = serde_json::to_string(&<dyn salsa::Database>::as_serialize(&mut db)).unwrap();
    assert_eq!(maker(&db, i)[0].t0(&db), 2, "original database after serializing");
}
