#![cfg(feature = "inventory")]
use salsa::{Database, Setter};

#[salsa::input]
struct Cfg { #[returns(copy)] specify: bool, #[returns(copy)] payload: u32 }

#[salsa::tracked]
struct Node<'db> { #[tracked] #[returns(copy)] value: u32 }

#[salsa::tracked(returns(copy), specify)]
fn label<'db>(db: &'db dyn Database, node: Node<'db>) -> u32 { node.value(db) + 100 }

#[salsa::tracked(returns(copy))]
fn make<'db>(db: &'db dyn Database, cfg: Cfg) -> Node<'db> {
    let node = Node::new(db, cfg.payload(db));
    if cfg.specify(db) {
        label::specify(db, node, 7);
    }
    node
}

#[salsa::tracked(returns(copy))]
fn read_label(db: &dyn Database, cfg: Cfg) -> u32 { label(db, make(db, cfg)) }

#[test]
fn specified_then_computed_through_wrapper() {
    let mut db = salsa::DatabaseImpl::new();
    let cfg = Cfg::new(&db, true, 1);
    assert_eq!(read_label(&db, cfg), 7);
    cfg.set_specify(&mut db).to(false);
    // the creator no longer specifies: the computed value must be returned, also through a wrapper
    assert_eq!(label(&db, make(&db, cfg)), 101);
    assert_eq!(read_label(&db, cfg), 101);
}

#[test]
fn wrapper_first() {
    let mut db = salsa::DatabaseImpl::new();
    let cfg = Cfg::new(&db, true, 1);
    assert_eq!(read_label(&db, cfg), 7);
    cfg.set_specify(&mut db).to(false);
    assert_eq!(read_label(&db, cfg), 101);
}
