#![cfg(feature = "inventory")]
use salsa::{Database, Setter};

#[salsa::input]
struct Inp { #[returns(copy)] x: u32, #[returns(copy)] unrelated: u32 }

#[salsa::tracked(returns(copy), cycle_result=a_fb)]
fn a(db: &dyn Database, i: Inp) -> u32 { i.x(db) | b(db, i) }
fn a_fb(_db: &dyn Database, _id: salsa::Id, _i: Inp) -> u32 { 1 }

#[salsa::tracked(returns(copy), cycle_result=b_fb)]
fn b(db: &dyn Database, i: Inp) -> u32 { (0 & a(db, i)) | i.x(db) }
fn b_fb(_db: &dyn Database, _id: salsa::Id, _i: Inp) -> u32 { 4 }

#[test]
fn incremental_vs_fresh() {
    // fresh database, entry at b
    let db = salsa::DatabaseImpl::new();
    let i = Inp::new(&db, 0, 0);
    let fresh_b = b(&db, i);
    assert_eq!(fresh_b, 4);

    // incremental: request a in rev 1, unrelated write, request b in rev 2
    let mut db = salsa::DatabaseImpl::new();
    let i = Inp::new(&db, 0, 0);
    assert_eq!(a(&db, i), 1);
    i.set_unrelated(&mut db).to(7);
    assert_eq!(b(&db, i), 4, "b participates in the cycle a<->b and must return its fallback");
}
