#![cfg(feature = "inventory")]
use salsa::{Database, Setter};

#[salsa::input]
struct Inp { #[returns(copy)] x: u32, #[returns(copy)] unrelated: u32 }

fn init(_db: &dyn Database, _id: salsa::Id, _i: Inp) -> u32 { 0 }

#[salsa::tracked(returns(copy), cycle_initial=init)]
fn n0(db: &dyn Database, i: Inp) -> u32 { if i.x(db) & 2 != 0 { n3(db, i) } else { n0(db, i) } }

#[salsa::tracked(returns(copy))]
fn n3(db: &dyn Database, i: Inp) -> u32 { n0(db, i) }

#[test]
fn deterministic_query_trips_backdate_assertion() {
    let mut db = salsa::DatabaseImpl::new();
    let i = Inp::new(&db, 0, 0);
    assert_eq!(n0(&db, i), 0);
    i.set_x(&mut db).to(2);
    assert_eq!(n0(&db, i), 0);
    assert_eq!(n3(&db, i), 0);
    i.set_x(&mut db).to(5);
    assert_eq!(n0(&db, i), 0);
    i.set_unrelated(&mut db).to(1);
    assert_eq!(n3(&db, i), 0);
}
