#![cfg(all(feature = "persistence", feature = "inventory"))]
use salsa::{Database, Setter};
use salsa::plumbing::ZalsaDatabase;

#[salsa::input(persist)]
struct Inp { #[returns(copy)] a: u32 }

#[salsa::tracked(persist)]
struct Ent<'db> { #[returns(copy)] ident: u32, #[tracked] #[returns(copy)] t0: u32 }

/// Creates one struct whose identity never changes: its result (the id) is backdated when `a` changes.
#[salsa::tracked(persist, returns(copy))]
fn maker<'db>(db: &'db dyn Database, i: Inp) -> Ent<'db> { Ent::new(db, 0, i.a(db)) }

/// Not persisted: its dependencies are flattened into persisted dependents.
#[salsa::tracked(returns(copy))]
fn inner(db: &dyn Database, i: Inp) -> u32 { maker(db, i).t0(db) + 1 }

/// Persisted; depends on the creator directly *and* on the tracked field through `inner`.
#[salsa::tracked(persist, returns(copy))]
fn outer(db: &dyn Database, i: Inp) -> u32 { let _ = maker(db, i); inner(db, i) * 10 }

#[test]
fn restored_memo_sees_tracked_field_change() {
    let mut db = salsa::DatabaseImpl::new();
    let i = Inp::new(&db, 1);
    assert_eq!(outer(&db, i), 20);
    let text = serde_json::to_string(&<dyn salsa::Database>::as_serialize(&mut db)).unwrap();
    let mut db2 = salsa::DatabaseImpl::new();
    <dyn salsa::Database>::deserialize(&mut db2, &mut serde_json::Deserializer::from_str(&text)).unwrap();
    let i2: Inp = Inp::ingredient(&db2).entries(db2.zalsa()).next().unwrap().as_struct();
    // (call the creator directly once: works around the unrelated finding F14)
    let _ = maker(&db2, i2);
    assert_eq!(outer(&db2, i2), 20);
    i2.set_a(&mut db2).to(5);
    assert_eq!(outer(&db2, i2), 60, "restored database after a write");
    // the original database, same history
    i.set_a(&mut db).to(5);
    assert_eq!(outer(&db, i), 60);
}
