#![cfg(feature = "inventory")]
use salsa::{Database, Setter};

#[salsa::input]
struct Inp { #[returns(copy)] b0: u32, #[returns(copy)] a2: u32, #[returns(copy)] b2: u32 }

fn init(_db: &dyn Database, _id: salsa::Id, _i: Inp) -> u32 { 0 }
fn join(_db: &dyn Database, _c: &salsa::Cycle, last: &u32, new: u32, _i: Inp) -> u32 { *last | new }

#[salsa::tracked(returns(copy), cycle_initial=init)]
fn n0(db: &dyn Database, i: Inp) -> u32 { if i.a2(db) & 1 != 0 { 0 } else { n2(db, i) | n4(db, i) } }
#[salsa::tracked(returns(copy), cycle_initial=init)]
fn n2(db: &dyn Database, i: Inp) -> u32 { if i.a2(db) & 1 != 0 { i.b2(db) & 3 } else { n5(db, i) } }
#[salsa::tracked(returns(copy), cycle_initial=init)]
fn n4(db: &dyn Database, i: Inp) -> u32 { if i.b0(db) & 2 != 0 { n5(db, i) & n5(db, i) } else { 0 } }
#[salsa::tracked(returns(copy), cycle_initial=init, cycle_fn=join)]
fn n5(db: &dyn Database, i: Inp) -> u32 { n0(db, i) }

#[test]
fn deterministic_queries_trip_backdate_assertion() {
    let mut db = salsa::DatabaseImpl::new();
    let i = Inp::new(&db, 0, 0, 0);
    assert_eq!(n4(&db, i), 0);
    assert_eq!(n0(&db, i), 0);
    assert_eq!(n2(&db, i), 0);
    i.set_b0(&mut db).to(3);
    assert_eq!(n4(&db, i), 0);
    assert_eq!(n5(&db, i), 0);
    assert_eq!(n0(&db, i), 0);
    db.synthetic_write(salsa::Durability::LOW);
    assert_eq!(n2(&db, i), 0);
    i.set_b0(&mut db).to(0);
    assert_eq!(n4(&db, i), 0);
    assert_eq!(n2(&db, i), 0);
}
