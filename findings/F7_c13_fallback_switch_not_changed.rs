#![cfg(feature = "inventory")]
use salsa::{Database, Setter};

#[salsa::input]
struct Inp { #[returns(copy)] a: u32, #[returns(copy)] b: u32, #[returns(copy)] c: u32 }

#[salsa::tracked(returns(copy), cycle_result=n0_fb)]
fn n0(db: &dyn Database, i: Inp) -> u32 { n1(db, i) }
fn n0_fb(_db: &dyn Database, _id: salsa::Id, _i: Inp) -> u32 { 3 }

#[salsa::tracked(returns(copy), cycle_result=n1_fb)]
fn n1(db: &dyn Database, i: Inp) -> u32 { 2 | n2(db, i) }
fn n1_fb(_db: &dyn Database, _id: salsa::Id, _i: Inp) -> u32 { 0 }

#[salsa::tracked(returns(copy), cycle_result=n2_fb)]
fn n2(db: &dyn Database, i: Inp) -> u32 {
    if i.b(db) & 1 != 0 { (i.c(db) & 3) | n2(db, i) } else { n1(db, i) | (i.a(db) & 3) }
}
fn n2_fb(_db: &dyn Database, _id: salsa::Id, _i: Inp) -> u32 { 1 }

#[test]
fn probe() {
    let mut db = salsa::DatabaseImpl::new();
    let i = Inp::new(&db, 0, 0, 0);
    assert_eq!(n2(&db, i), 1);
    assert_eq!(n0(&db, i), 0);
    i.set_b(&mut db).to(3);
    assert_eq!(n0(&db, i), 3, "n1 is no longer in a cycle: n1 = 2 | n2 = 3, n0 = n1");
}

#[test]
fn fresh() {
    let mut db = salsa::DatabaseImpl::new();
    let i = Inp::new(&db, 0, 0, 0);
    i.set_b(&mut db).to(3);
    assert_eq!(n0(&db, i), 3);
}
