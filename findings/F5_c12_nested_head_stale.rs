#![cfg(feature = "inventory")]
use salsa::{Database, Setter};

#[salsa::input]
struct Cell { #[returns(copy)] a: u32, #[returns(copy)] b: u32 }
#[salsa::input]
struct Key {}

#[salsa::input(singleton)]
struct Cells { #[returns(copy)] c0: Cell, #[returns(copy)] c1: Cell, #[returns(copy)] c2: Cell, #[returns(copy)] c3: Cell, #[returns(copy)] k1: Key, #[returns(copy)] k2: Key, #[returns(copy)] k3: Key, #[returns(copy)] k5: Key }

fn init(_db: &dyn Database, _id: salsa::Id, _i: Key) -> u32 { 0 }
fn join(_db: &dyn Database, _c: &salsa::Cycle, last: &u32, new: u32, _i: Key) -> u32 { *last | new }

#[salsa::tracked(returns(copy), cycle_fn=join, cycle_initial=init)]
fn n1(db: &dyn Database, _k: Key) -> u32 { let c = Cells::get(db); (c.c2(db).b(db) & 7) | n3(db, c.k3(db)) }
#[salsa::tracked(returns(copy), cycle_fn=join, cycle_initial=init)]
fn n2(db: &dyn Database, _k: Key) -> u32 { let c = Cells::get(db); n5(db, c.k5(db)) }
#[salsa::tracked(returns(copy), cycle_initial=init)]
fn n3(db: &dyn Database, _k: Key) -> u32 { let c = Cells::get(db); n5(db, c.k5(db)) | n1(db, c.k1(db)) }
#[salsa::tracked(returns(copy), cycle_fn=join, cycle_initial=init)]
fn n5(db: &dyn Database, _k: Key) -> u32 { let c = Cells::get(db); ((c.c0(db).a(db) & 7) | n2(db, c.k2(db))) | (n3(db, c.k3(db)) | (c.c1(db).b(db) & 7)) }

#[test]
fn incremental_vs_fresh() {
    let mut db = salsa::DatabaseImpl::new();
    let (c0, c1, c2, c3) = (Cell::new(&db, 0, 0), Cell::new(&db, 0, 0), Cell::new(&db, 0, 0), Cell::new(&db, 0, 0));
    let (k1, k2, k3, k5) = (Key::new(&db), Key::new(&db), Key::new(&db), Key::new(&db));
    Cells::builder(c0, c1, c2, c3, k1, k2, k3, k5).durability(salsa::Durability::NEVER_CHANGE).new(&db);
    assert_eq!(n1(&db, k1), 0);
    c1.set_a(&mut db).to(7);
    assert_eq!(n2(&db, k2), 0);
    assert_eq!(n2(&db, k2), 0);
    c3.set_b(&mut db).to(6);
    c2.set_b(&mut db).to(5);
    assert_eq!(n1(&db, k1), 5);
    assert_eq!(n5(&db, k5), 5, "n5 = n2 | n3 and n3 includes n1 = 5");
}
