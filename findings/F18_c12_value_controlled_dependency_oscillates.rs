//! F18 (C12): monotone bodies over a finite lattice, cycle_initial = bottom, default cycle_fn, yet
//! the fixpoint iteration never converges ("too many cycle iterations") on a *fresh* database.
//!
//! n0 = { let c = n3(); if c != 0 { c | n2() | 5 } else { 5 } }     (monotone in n3, n2)
//! n2 = n0()
//! n3 = n0() & 4 & { let c = n2(); if c == 0 { n3() & 0 } else { c } }   (monotone in n0, n2, n3)
//! least fixpoint: n0 = 5, n2 = 5, n3 = 4.
//!
//! Requesting n3 first: in iteration 0 n0 sees n3 = 0, does not call n2 and returns 5; n2 = 5, n3 = 4.
//! In iteration 1 n0 sees n3 = 4 and calls n2, which calls n0 again: n0 is now an *inner* cycle head
//! that starts from cycle_initial = 0 although it already had the value 5, so n2 = 0 and n3 falls
//! back to 0. Iteration 2 repeats iteration 0, and so on: 4, 0, 4, 0, ... until the iteration limit.
//! Place in tests/ and run with `cargo test --test F18_c12_value_controlled_dependency_oscillates`.
#![cfg(feature = "inventory")]

#[salsa::tracked(returns(copy), cycle_initial = bottom)]
fn n0(db: &dyn salsa::Database) -> u8 {
    let c = n3(db);
    if c != 0 { c | n2(db) | 5 } else { 5 }
}

#[salsa::tracked(returns(copy), cycle_initial = bottom)]
fn n2(db: &dyn salsa::Database) -> u8 {
    n0(db)
}

#[salsa::tracked(returns(copy), cycle_initial = bottom)]
fn n3(db: &dyn salsa::Database) -> u8 {
    let a = n0(db);
    let c = n2(db);
    let p = if c == 0 { n3(db) & 0 } else { c };
    a & 4 & p
}

fn bottom(_db: &dyn salsa::Database, _id: salsa::Id) -> u8 {
    0
}

#[test]
fn monotone_program_converges_to_least_fixpoint() {
    let db = salsa::DatabaseImpl::new();
    assert_eq!(n3(&db), 4);
    assert_eq!(n0(&db), 5);
    assert_eq!(n2(&db), 5);
}

#[test]
fn other_entry_order() {
    let db = salsa::DatabaseImpl::new();
    assert_eq!(n0(&db), 5);
    assert_eq!(n2(&db), 5);
    assert_eq!(n3(&db), 4);
}
