#![cfg(feature = "inventory")]
use std::sync::atomic::{AtomicBool, Ordering};
use salsa::{Database, Setter};

static PANIC_IN_EQ: AtomicBool = AtomicBool::new(false);

#[derive(Clone, Debug, Hash)]
struct Field(u32);
// SAFETY: no database references inside
unsafe impl salsa::SalsaValue for Field {}
impl PartialEq for Field {
    fn eq(&self, other: &Self) -> bool {
        if PANIC_IN_EQ.swap(false, Ordering::Relaxed) {
            panic!("user PartialEq panics once");
        }
        self.0 == other.0
    }
}
impl Eq for Field {}

#[salsa::input]
struct Inp { #[returns(copy)] x: u32 }

#[salsa::tracked]
struct Node<'db> { #[tracked] #[returns(clone)] f: Field }

#[salsa::tracked(returns(copy))]
fn make<'db>(db: &'db dyn Database, i: Inp) -> Node<'db> { Node::new(db, Field(i.x(db))) }

#[salsa::tracked(returns(copy))]
fn read(db: &dyn Database, i: Inp) -> u32 { make(db, i).f(db).0 }

#[test]
fn eq_panic_during_struct_update_is_recoverable() {
    let mut db = salsa::DatabaseImpl::new();
    let i = Inp::new(&db, 1);
    assert_eq!(read(&db, i), 1);
    i.set_x(&mut db).to(2);
    PANIC_IN_EQ.store(true, Ordering::Relaxed);
    let r = std::panic::catch_unwind(std::panic::AssertUnwindSafe(|| read(&db, i)));
    assert!(r.is_err(), "the user panic reaches the caller");
    // the panic no longer occurs: same revision and a later revision must work
    assert_eq!(read(&db, i), 2);
    i.set_x(&mut db).to(3);
    assert_eq!(read(&db, i), 3);
}
