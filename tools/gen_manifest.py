#!/usr/bin/env python3
"""Generate MANIFEST.json from tools/plans.py and tools/manifest_meta.py."""
import json, os, sys
root = os.path.dirname(os.path.dirname(os.path.abspath(__file__)))
sys.path.insert(0, os.path.join(root, "tools"))
import plans, manifest_meta as mm
props = [json.loads(l) for l in open(os.path.join(root, "properties.jsonl"))]
checks, na = [], []
for p in props:
    pid = p["id"]
    if pid in plans.PLANS and pid in mm.META:
        meta = mm.META[pid]
        c = {
            "property_id": pid,
            "quick_cmd": f"./vcheck {pid} quick",
            "thorough_cmd": f"./vcheck {pid} thorough",
            "evidence_file": f"/verif/evidence/{pid}.json",
            "replay_cmd_template": f"./vcheck {pid} --replay {{path}}",
            "engine": meta["engine"],
            "level_claimed": {"category": plans.PLANS[pid].get("level", "exploration"), "text": meta["text"],
                              "design_ref": meta.get("design_ref", f"DESIGN.md section 8 ({pid})")},
            "level_note": meta["note"],
            "technique": meta["technique"],
        }
        checks.append(c)
    else:
        na.append({"property_id": pid, "reason": mm.NOT_YET.get(pid, "check not built yet in this tree; see DESIGN.md")})
man = {
    "version": 1,
    "setup_cmd": "./vcheck setup",
    "hooks": {
        "guard": "cargo feature `verif` of crate salsa (off by default, not part of `default`)",
        "enable": "the harness crate /verif/harness depends on salsa by path=/repo with features=[\"verif\"]; vcheck rebuilds it from /repo's working tree before every run",
        "baseline_off_cmd": "cd /repo && cargo test --workspace --no-fail-fast --offline",
        "source_commits": mm.HOOK_COMMITS,
        "add_only": True,
    },
    "engines": mm.ENGINES,
    "checks": checks,
    "notes": mm.NOTES,
    "not_applicable": na,
}
json.dump(man, open(os.path.join(root, "MANIFEST.json"), "w"), indent=1)
print("wrote MANIFEST.json with", len(checks), "checks;", len(na), "not applicable")
