"""Human-written manifest texts per property."""
HOOK_COMMITS = ["0db57c5", "986d32b"]
ENGINES = [
    {"name": "E-single", "path": "/verif/harness (svh run, native cfg)", "serves_properties": [], "kind_free_text":
     "single handle, single thread: seeded program+history generator, reference interpreter as value oracle, event-log monitors"},
]
NOTES = ("Runtime monitoring only: every verdict comes from an oracle over executions of the real salsa code. "
         "Exit 0 = held on what was explored, 1 = violation with replay file, 2 = inconclusive.")
NOT_YET = {}
SINGLE_NOTE = ("Trusted base: the harness's reference interpreter (cross-checked against a fresh salsa database on a sample "
               "of requests, disagreement => inconclusive), the generated program family (interpreter-shaped generic tracked "
               "functions), salsa's public Event stream and the harness's own body log. Nothing is claimed beyond the "
               "executions produced for the given seed.")
META = {
    "C01": {
        "engine": "E-single",
        "technique": "runtime monitoring: differential value oracle (reference interpreter) over generated histories",
        "text": "Exploration: tens of thousands (quick) to ~10^6 (thorough) seeded program+history pairs are executed on the "
                "real database; every returned value (tracked fns, struct fields, interned read-backs) is compared with a "
                "from-scratch reference evaluation on the current inputs. Held = no mismatch on any explored request.",
        "note": SINGLE_NOTE,
    },
}
