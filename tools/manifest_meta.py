"""Human-written manifest texts per property."""
HOOK_COMMITS = ["0db57c5", "986d32b", "2fcd781"]
CONC_NOTE = ("Trusted base: the reference interpreter for expected values, salsa's public Event stream, the harness's own body/top-level "
             "log (one SeqCst logical clock), and for C19 the feature-guarded protocol trace emitted under salsa's own locks. Shuttle "
             "runs the real salsa code with its `shuttle` feature (sequentially consistent, shuttle's lock implementation); because "
             "shuttle models an unwind through a mutex guard as lock poisoning, workloads with cycle panics or cancellation run only on "
             "OS threads (real parking_lot, seeded delay injection at failpoints between salsa's critical sections). Nothing is claimed "
             "beyond the schedules / runs explored for the given seed; no weak-memory behaviours except under TSan's detection in the "
             "thorough tier.")
ENGINES = [
    {"name": "E-sched", "path": "/verif/harness (svh run --sub sched, cfg sched = salsa feature shuttle)", "serves_properties":
     ["C08", "C09", "C11", "C16", "C17", "C18", "C19", "C24"], "kind_free_text":
     "schedule fuzzing of the real code with shuttle's random / PCT / uniform-random-walk schedulers; monitors are the oracle; exact "
     "deadlock detection and a step bound; deterministic replay from the case seed"},
    {"name": "E-os", "path": "/verif/harness (svh run --sub os, cfg native / tsan)", "serves_properties":
     ["C08", "C09", "C14", "C16", "C17", "C18", "C19", "C20", "C21", "C22", "C23", "C24"], "kind_free_text":
     "real OS threads on database clones with seeded delay injection (yield / spin / sleep profiles) at feature-guarded failpoints "
     "between salsa's critical sections; watchdog + protocol-trace analysis for stuck states; ThreadSanitizer build in the thorough tier"},
    {"name": "E-single", "path": "/verif/harness (svh run, native cfg)", "serves_properties":
     ["C01", "C02", "C03", "C04", "C05", "C06", "C07", "C08", "C09", "C10", "C11", "C12", "C13", "C14", "C15"], "kind_free_text":
     "single handle, single thread: seeded program+history generator, reference interpreter as value oracle, event-log monitors"},
]
NOTES = ("Runtime monitoring only: every verdict comes from an oracle over executions of the real salsa code. "
         "Exit 0 = held on what was explored, 1 = violation with replay file, 2 = inconclusive.")
NOT_YET = {}
SINGLE_NOTE = ("Trusted base: the harness's reference interpreter (cross-checked against a fresh salsa database on a sample "
               "of requests, disagreement => inconclusive), the generated program family (interpreter-shaped generic tracked "
               "functions), salsa's public Event stream and the harness's own body log. Nothing is claimed beyond the "
               "executions produced for the given seed.")
def E(tech, text, note=None, engine="E-single"):
    note = note or SINGLE_NOTE
    return {"engine": engine, "technique": "runtime monitoring: " + tech, "text": text, "note": note}


VOL = ("Exploration: ~2*10^5 (quick) to several 10^6 (thorough, also without debug assertions) seeded program+history pairs are "
       "executed on the real database on one handle. ")
META = {
    "C01": E("differential value oracle (reference interpreter) over generated histories",
             VOL + "Every returned value (tracked fns with 0/1/2 arguments, struct fields, interned read-backs, functions keyed by structs "
             "and interned values) is compared with a from-scratch reference evaluation on the current inputs; unexpected panics and "
             "runaway re-execution (step bound) are violations. Held = no mismatch on any explored request."),
    "C02": E("differential value oracle + never-change panic model over durability-mixed histories",
             VOL + "Writes pick durabilities keep/LOW/MEDIUM/HIGH/NEVER_CHANGE (raising and lowering), synthetic writes use every durability. "
             "Values are compared with the reference; a write to a frozen field or a never-change synthetic write must panic with the "
             "never-change message and later results must not move; a quiescent walk checks that the per-durability revisions never increase "
             "with durability (anomalies trigger follow-up requests, they are not verdicts)."),
    "C03": E("event-trace justification monitor over WillExecute/DidValidateMemoizedValue and the harness's read log",
             VOL + "A shadow red-green model is replayed over the event log: each WillExecute must be justified by one of the clauses of "
             "the property (first execution, key re-generated/discarded, value evicted, previous execution read untracked state, an input "
             "field it read was written, a tracked field recreated with a different value / no_eq / lower durability, a callee produced a "
             "different value / is no_eq / became less durable, an interned value was reclaimed). The model is never stricter than the "
             "statement; the evidence lists how often each clause justified an execution."),
    "C04": E("differential value oracle + per-revision re-execution rule for untracked readers",
             VOL + "Harness cells are read through untracked reads and poked between revisions (always followed by a synthetic write of a "
             "random durability). Values are compared with the reference reading the poked cells, and in every later revision a function "
             "whose last execution read untracked state must show a WillExecute before the request returns whenever a from-scratch "
             "evaluation of the request calls it."),
    "C05": E("exact LRU reference model vs boundary observation of retained values, plus value oracle",
             VOL + "Transparency: all values vs the reference. Boundedness: after every new revision / eviction trigger the set of lru keys "
             "that still hold a value is observed at the boundary (live-instance registry of the result type: a value exists or has been "
             "dropped) and compared with a 20-line LRU model (move-to-back on every fetch while capacity != 0, pop-front while over capacity, "
             "untracked results exempt, capacity 0 disables). Dependency retention: an evicted key must not execute before it is requested."),
    "C06": E("identity reference model over struct ids, discard events and entries() enumeration",
             VOL + "The identity of every created struct is recorded (salsa::plumbing::AsId) and compared with a model keyed by (creator key, "
             "identity field value, per-identity occurrence): preserved across creator re-execution, distinct otherwise; structs no longer "
             "created must be discarded (DidDiscard) and must disappear from Ent::ingredient().entries(); values of functions keyed by "
             "structs vs the reference. A third of the cases run with identity fields whose hashes all collide (two identity fields, the "
             "second derived from the first): there the monitor is 'an id (slot, generation) never denotes two identity values' plus a "
             "consistency check of the identity fields on every read."),
    "C07": E("differential value oracle with key-digest results under slot churn",
             VOL + "Interned types with revisions=1..3 and a constant hash (one shard, reuse almost every revision) and makers that toggle "
             "creation keep the free list and the interned LRU hot. Every struct/interned/tuple keyed function returns a digest of its "
             "key's fields, so a memo or field aliased across a reused slot changes a returned value; all values vs the reference, plus the "
             "identity bookkeeping of C06."),
    "C09": E("trace monitor: retention reference model over intern/reuse/validate events",
             VOL + "Every DidReuseInternedValue is checked against a model of the retention rule: type not immortal, slot only ever interned by "
             "LOW-durability activations, slot not used (interned or revalidated through a dependent, observed with hook `InternedDependencyChecked`) "
             "in any of the last `revisions` revisions that used the type, and at least that many such revisions exist. Identity continuity "
             "of non-reclaimable values is checked across revisions. The model is deliberately no stricter than the code (property is an 'only if'). "
             "The same model also judges the merged logs of the concurrent interning family (2-4 threads interning in a fresh revision after a "
             "pre-history of several revisions) under shuttle schedules and on OS threads.", None, "E-single + E-sched + E-os"),
    "C10": E("differential value oracle + no-execution-after-specify monitor + expected panics",
             VOL + "Creators conditionally specify values (optionally after reading the function on their own struct, twice, or on foreign "
             "structs). q_spec results are compared with the reference under creator-first and reader-first orders and across revisions in "
             "which the creator re-executes, backdates, is validated green or stops specifying; a body execution after a specification in the "
             "same revision, or a missing/incorrect specify panic, is a violation."),
    "C11": E("differential oracle on accumulated lists (order and multiset)",
             VOL + "f::accumulated::<Diag>() is compared with the reference's depth-first list of a from-scratch evaluation, for roots at "
             "all depths, before and after plain requests of the same functions, while contributing memos are reused, deep/shallow verified, "
             "backdated or become never-change."),
    "C12": E("differential value oracle: least fixpoint by two independent solvers",
             VOL + "Cyclic programs over a bit-set lattice (monotone bodies, nested/intertwined/conditional cycles, value-controlled monotone "
             "branches, default and joining cycle_fn); every node is an entry point in some history. Each returned value is compared with the "
             "least fixpoint computed by Kleene iteration and by an independent worklist solver (disagreement between them = inconclusive). "
             "Known finding F5 (stale inner head) is reported as KNOWN-FINDING by exact root-cause signature."),
    "C13": E("differential value oracle: SCC analysis of the input-determined call graph",
             VOL + "All functions use cycle_result; call edges depend on inputs only, so participation is order independent. Each returned "
             "value is compared with: fallback for members of cyclic SCCs, body value over those results otherwise. Known finding F4 "
             "(participant executed outside its cycle) is reported as KNOWN-FINDING by exact root-cause signature."),
    "C14": E("outcome-class monitor (cycle panic / value / hang by step bound) + later-value oracle, single thread",
             VOL + "Requests whose input-determined graph contains a cycle of only non-recovering functions must panic with a cycle error "
             "(never return, never exceed the logical step bound); mixed cycles may panic or return the least fixpoint; afterwards and after "
             "writes that break the cycle every value must equal the reference. Threaded entry is covered by the concurrent engines (see C16/C18/C19)."),
    "C15": E("iteration-count and panic-class monitor + later-value oracle",
             VOL + "Non-monotone bodies over 12-bit values inside cycles: WillIterateCycle numbers must stay <= 200, the request must end in a "
             "'too many cycle iterations' panic (or a propagated panic for re-requests in the same revision) and never exceed the logical "
             "step bound; after a write that makes the bodies monotone all values must equal the least fixpoint."),
}

CVOL = ("Exploration: every case is run under ~20 (quick) / 40 (thorough) schedules or timed runs; quick explores ~3*10^5 shuttle schedules "
        "and ~10^4 OS-thread runs, thorough ~10^7 schedules, ~5*10^5 runs plus a ThreadSanitizer pass. ")
META.update({
    "C08": E("bijection monitor over interning observations (value<->handle per revision) under schedule fuzzing",
             CVOL + "Threads intern values from a tiny domain at top level and inside queries into constant-hash and real-hash types while "
             "others read handles; per revision two equal values must yield one handle, unequal values different handles, field reads the "
             "interned value, under shuttle schedules and on OS threads with a delay failpoint before the shard lock. A single-handle run adds "
             "histories of revisions under LOW..HIGH durabilities with slot reclamation: same bijection per revision, identity kept while "
             "the slot was not reclaimed, and every handle held by a memo that the current request validated (transitively) is read back "
             "through its id and must still denote the value it was interned for.",
             CONC_NOTE, "E-sched + E-os + E-single"),
    "C16": E("per-thread differential value oracle + deadlock detection (shuttle: all threads blocked; OS: protocol-level stuck state)",
             CVOL + "2-4 threads with database clones request overlapping sets of functions of acyclic programs after a prior revision, so "
             "verification, execution, blocking and retry paths run concurrently; every result must equal the reference, no schedule may "
             "deadlock or exceed the step bound, an unexpected panic (e.g. a spurious cycle error) is a violation. A third of the cases churn tracked "
             "structs (makers switched off and on at once, so one thread deletes structs and their memos while another creates structs of the "
             "same type); after the parallel phase every interned handle held by a memo that a request validated is read back and must still "
             "denote the value it was interned for; the event callback yields / sleeps on discard and interning events.",
             CONC_NOTE, "E-sched + E-os"),
    "C17": E("exactly-once counting monitor over WillExecute events per (key, revision) across handles",
             CVOL + "Same executions as C16 without lru/cycles/cancellation/panics: two WillExecute events for one key (slot and generation) in "
             "one revision are a violation.",
             CONC_NOTE, "E-sched + E-os"),
    "C18": E("per-thread differential value oracle (least fixpoint / SCC) + deadlock and livelock (step bound) detection",
             CVOL + "2-3 threads enter generated fixpoint / cycle_result programs at different members (nested and conditional cycles, lock "
             "ownership transfers between threads); every result must equal the single-threaded oracle of C12/C13, no schedule may "
             "deadlock or exceed the step bound. A quarter of the fixpoint cases use a directed nested-conditional template with value-controlled "
             "callee sets (an inner function drops out of the outer cycle in a later iteration while another thread waits for it); known "
             "findings F5, F18-F21 are matched by root-cause signature.",
             CONC_NOTE, "E-sched + E-os"),
    "C19": E("offline trace checker: recorded claim/wait/transfer protocol operations vs an abstract reference model",
             CVOL + "Every BlockOn must be followed by exactly one Unblock and one Resume with the same outcome; no wait is entered while the "
             "model has a wait path back (edges possibly re-pointed by a transfer are left out, so the check under-approximates); every "
             "Unblock needs an admissible cause (release of the key, release of the transfer owner, hand-over) with the matching outcome; "
             "Completed iff the releaser is not unwinding; a release wakes every modelled waiter of the key; first claims are exclusive; "
             "nobody is left waiting at the end. The 'all reachable states, model checked' clause of the quantifier is NOT decided here: "
             "only the states reached by the explored executions (counted in the evidence).",
             CONC_NOTE, "E-sched + E-os"),
    "C20": E("history monitors over writer/reader logs: write-vs-drop ordering, cancellation rule, per-revision value oracle",
             CVOL + "One writer (input writes, synthetic writes, lru capacity changes, eviction triggers) and 1-2 readers that take clones from a "
             "master handle: a write may complete only after every earlier clone started to be dropped; after the cancellation flag a reader that "
             "checked for cancellation must not emit further events; reader results must equal the reference for the revision of their clone "
             "(accepted failures: PendingWrite, and PropagatedPanic only when the log shows a write in progress during the call, another reader's overlapping call that was itself cancelled and, for programs without cycle-recovering functions, a WillBlockOn of the failing thread), and everything after the phase equals the reference of the final inputs "
             "(provisional fixpoint memos of abandoned epochs included). OS threads only (see note).",
             CONC_NOTE, "E-os"),
    "C21": E("three-state cancellation monitor over Cancel/Call/Ret records + value oracle for the other handles",
             CVOL + "A canceller thread fires tokens of 2-3 reader handles at random points: Cancelled::Local is legitimate only after an "
             "unconsumed cancel() of that handle; a cancel that falls between two calls must make the next call (outside fixpoint iteration) "
             "unwind; all other results equal the reference; no stuck state. OS threads only (see note).",
             CONC_NOTE, "E-os"),
    "C24": E("identity-distinctness and read-back monitor over concurrent creations",
             CVOL + "2-4 threads create inputs directly, intern values and run makers on their own handles (handles are dropped at the end of the "
             "phase): identities of inputs are pairwise distinct, every identity reads back the fields it was created with, interning stays "
             "canonical, tracked-struct identities obey the identity monitor. Threads also turn their handle into a StorageHandle and back "
             "between creations (the handle's partly filled pages go back to the shared table).",
             CONC_NOTE, "E-sched + E-os"),
})
META["C14"]["engine"] = "E-single + E-os"
META["C11"]["engine"] = "E-single + E-sched"

META["C22"] = E("fault enumeration: a panic injected at every user-code step, recovery judged by the reference interpreter",
    "Fault enumeration: for each small generated (program, history) every user-code step of the whole history is a crash point (enumerated "
    "exhaustively for most cases, sampled above 120/400 points): the injected panic must reach the caller, no result of the interrupted "
    "computation may be returned, and after the fault is disarmed the rest of the history, a repeat of the request and a full sweep in the "
    "next revision must agree with the reference; a second run arms the fault while two OS threads compute overlapping functions so that "
    "one waits on the other (propagated panic or correct value, never a hang). Known findings F2 and F13 are reported as KNOWN-FINDING by "
    "(injection site, failure message) signature; F1 was repaired. Fault sites include PartialEq of function results (also of makers' struct lists), "
    "of tracked fields, Hash/Eq of interned keys, cycle functions and the event callback by event kind.",
    SINGLE_NOTE, "E-fault (E-single replay per injection point) + E-os")

META["C25"] = E("exhaustive + sampled round-trip oracle over the real origin encoder/decoder, plus Miri on the unsafe allocation code",
    "Exploration, exhaustive for the bounded part: all 176821 edge sequences of length <= 2 over 420 boundary classes (just inside / outside the "
    "12-bit ingredient and 20-bit generation limits of the compact encoding, index extremes, input/output) are built as stored origins in 4 "
    "variants each and decoded again through a feature-guarded hook that calls salsa's own constructors and accessors; the oracle is the plain "
    "vector the origin was built from (order, kinds, ingredient, index, generation; input/output partition; extra data kept by clear_edges and "
    "by late attachment). Longer sequences (3..40) are sampled with packable prefixes so the packed-to-wide fallback happens mid-sequence; "
    "persisted origins are round-tripped through serde_json in the persistence build; Miri interprets all sequences of length <= 1 plus samples "
    "(undefined behaviour in the co-allocated header/slice code would be reported).",
    "Trusted base: the hook module `salsa::verif::origin` (thin wrapper, feature-guarded, additive), Miri for the UB verdict on what it executes. "
    "Sequences longer than 40 edges and ingredient/index values between the boundary classes are only sampled.",
    "native loop + Miri")
HOOK_COMMITS.append("cb42a1b")
HOOK_COMMITS.append("a08fdfb")

META["C26"] = E("differential oracle across a serde_json round trip: values vs reference interpreter, executions vs memo validity",
    "Exploration: ~6*10^4 (quick) to 3*10^6 (thorough) seeded (program, history, cut point) cases in the persistence build: serialize after an "
    "arbitrary history (including deletions of tracked structs, interned-slot reclamation, memos stale at the time of serialization), "
    "restore into a fresh database, then compare every result with the reference right after the restore, through the rest of the history "
    "and after a further revision; persisted memos verified in the revision of serialization must be served without executing; a panic in "
    "serialize/deserialize is a violation. Known findings F3, F14 and F15 are reported as KNOWN-FINDING by signature.",
    SINGLE_NOTE, "E-single (persist cfg)")

META["C23"] = E("compiler sanitizers and an undefined-behaviour interpreter over generated histories, plus reference revalidation",
    "Exploration: the single-threaded history families (evictions, tracked-struct deletion, interned reclamation, specify, fixpoint and "
    "cycle_result cycles incl. fixpoint functions that are also lru) run natively, under AddressSanitizer (~1.6*10^4 histories quick, ~10^6 thorough) "
    "and under Miri (4 histories quick, 80 thorough: use-after-free, out-of-bounds, invalid borrows, data races, and memory still allocated "
    "after the database was dropped are reported). Every reference returned by a tracked function is remembered with its value and re-read "
    "just before the next mutable borrow. Thorough adds OS-thread workloads (readers, cycles, writer+readers, cancellation, injected panics) "
    "under ASan, valgrind memcheck on the native binary, and 2 OS-thread cases interpreted by Miri under 12 interpreter seeds each "
    "(data races and UB in salsa's unsafe code with different preemption points and weak-memory outcomes; a planted Relaxed publication "
    "of memo pointers is reported as a data race).",
    "Trusted base: rustc's AddressSanitizer runtime, Miri, valgrind; the harness's retention list. A clean run is not memory safety (see assumptions).",
    "E-single under native / ASan / Miri (+ E-os under ASan and Miri, E-fault under ASan, memcheck in thorough)")
