#!/bin/bash
# try_patch.sh <patch-file> <prop> [cases] [cfg] [extra svh args...] : apply a patch to /repo, rebuild the harness, run one property's
# campaign, print a summary, revert. Development aid; refuses to run on a dirty /repo.
set -u
P=$(readlink -f "$1"); PROP=$2; CASES=${3:-20000}; CFG=${4:-native}; shift 4 2>/dev/null || shift $#
if [ -n "$(git -C /repo status --porcelain)" ]; then echo "/repo is dirty; commit or stash first"; exit 2; fi
git -C /repo apply "$P" || git -C /repo apply --3way "$P" || { echo "patch does not apply"; exit 2; }
trap 'git -C /repo checkout -q -- . ; git -C /repo clean -fdq tests 2>/dev/null' EXIT
FEAT=""
case $CFG in sched) FEAT="--features shuttle";; persist) FEAT="--features persist";; esac
( cd /verif/harness && CARGO_TARGET_DIR=/verif/target/$CFG cargo build --release --offline $FEAT 2>&1 | grep -E "^error" -A8 | head -30 )
/verif/target/$CFG/release/svh run --prop $PROP --seed ${VERIF_SEED:-1} --cases $CASES --out /tmp/svhout "$@" | python3 -c "
import json,sys
d=json.loads(sys.stdin.read().strip().splitlines()[-1])
print('$PROP eval',d['evaluations'],'nontrivial',d['nontrivial'],'violating_cases',d['counts'].get('violating_cases',0),'inconclusive',len(d['inconclusive']),'wall',d['wall_s'])
for v in d['violations'][:3]: print('  V:',v['msg'][:400])
for v in d['inconclusive'][:2]: print('  I:',v[:300])
"
