#!/usr/bin/env python3
"""mk_mutant_prompt.py <Cxx> <tag> [avoid-text]: create scratch worktree /tmp/mut-<Cxx>-<tag> of /repo and print the sub-agent prompt.
The prompt contains only the property text (nothing from /verif)."""
import json, subprocess, sys, os
pid, tag = sys.argv[1], sys.argv[2]
avoid = sys.argv[3] if len(sys.argv) > 3 else ""
root = os.path.dirname(os.path.dirname(os.path.abspath(__file__)))
p = next(json.loads(l) for l in open(os.path.join(root, "properties.jsonl")) if json.loads(l)["id"] == pid)
wt = f"/tmp/mut-{pid}-{tag}"
if not os.path.exists(wt):
    subprocess.check_call(["git", "-C", "/repo", "worktree", "add", "--detach", wt, "HEAD"], stdout=subprocess.DEVNULL, stderr=subprocess.DEVNULL)
prompt = f"""You are working in a scratch git worktree of the Rust crate `salsa` (salsa-rs/salsa, an incremental computation framework) at {wt} (detached HEAD). Work ONLY inside {wt}. There is no network: always pass `--offline` to cargo. Never read or touch /repo or /verif. Use `CARGO_TARGET_DIR={wt}/target` (the default) so your build output stays inside the worktree.

Here is a semantic property of salsa that is supposed to hold:

  Title: {p['title']}
  Statement: {p['statement']}
  Quantified over: {p['quantifier']['text']}

YOUR TASK: devise a change to salsa's own source code (under src/ or components/) that BREAKS this property, such that
  (a) the crate still compiles,
  (b) the ENTIRE existing test suite still passes with the change: `cargo test --workspace --no-fail-fast --offline` (about 280 tests, all must pass; run it and check),
  (c) it is a realistic bug a maintainer could plausibly introduce (wrong comparison, off-by-one, dropped guard or check, wrong ordering of two steps, a too-eager optimisation, state not restored on an unusual path, two cooperating sites that each look fine alone) -- NOT a blatant sabotage, and
  (d) it needs something SPECIFIC to manifest: a particular interleaving of threads, a panic/fault at a particular point, a multi-step sequence of operations, an unusual input or configuration. Ordinary use must not expose it at once (that is why the existing tests keep passing).
Keep the change small (ideally 1-15 lines). Do not edit, add or remove existing tests. Do not touch the `verif` hooks (src/verif.rs and any `#[cfg(feature = "verif")]` item or statement) -- leave them exactly as they are. {avoid}

Also write a DEMONSTRATION: a single integration-test file (it will be placed at tests/seeded_demo.rs, run with `cargo test --offline --test seeded_demo`) that uses only salsa's public API, that FAILS with your change applied and PASSES on the unchanged code. If it needs a cargo feature, start the file with `#![cfg(feature = "shuttle")]` or `#![cfg(feature = "persistence")]` (it is then run with `--features shuttle` / `--features persistence`); otherwise start it with `#![cfg(feature = "inventory")]` like the existing tests do. For thread-interleaving bugs make the demo deterministic (barriers/signals as in tests/parallel/, or the shuttle scheduler), or loop enough iterations that it fails reliably (>95%) with the change and never without.

Verify everything yourself: (1) the demo passes on unchanged code, (2) the demo fails with the change, (3) the full existing suite passes with the change (state the pass/fail counts).

DELIVERABLES, in the directory {wt}/seeded/ (create it):
  - patch.diff      : `git diff` of your source change only (must apply to HEAD with `git apply`; do not include the demo or the seeded/ directory)
  - seeded_demo.rs  : the demonstration test file
  - notes.md        : which clause of the property is broken, what exactly it needs in order to manifest (the interleaving / sequence / input), why the existing tests do not notice, and the commands you ran with their results
When done, revert the source change in the worktree (`git checkout -- src components`), remove tests/seeded_demo.rs, and leave only seeded/ behind. Finish with a 5-line summary of the change and what it needs to manifest. If after serious effort you cannot find a change that satisfies (a)-(d) AND passes the whole suite, say so plainly instead of delivering something that does not meet the requirements.
"""
open(f"/tmp/prompts/{pid}-{tag}.txt", "w").write(prompt)
print(prompt)
