#!/bin/bash
# mutant_matrix.sh: apply every seeded change / planted break to /repo in turn, run the quick check(s) of the named
# properties with VERIF_BUDGET_SCALE, record whether a VIOLATION was reported. Development aid (never part of a registered check).
# usage: tools/mutant_matrix.sh [scale] ; output: /verif/seeded/MATRIX.txt
set -u
SCALE=${1:-1}
OUT=/verif/seeded/MATRIX.txt
: > $OUT
if [ -n "$(git -C /repo status --porcelain)" ]; then echo "/repo is dirty"; exit 2; fi
run() { # patch-file id props...
  local pf=$1 id=$2; shift 2
  git -C /repo apply "$pf" 2>/dev/null || git -C /repo apply --3way "$pf" 2>/dev/null || { echo "$id: patch does not apply" | tee -a $OUT; git -C /repo checkout -q -- .; return; }
  for p in "$@"; do
    local t0=$(date +%s)
    res=$(cd /verif && VERIF_BUDGET_SCALE=$SCALE ./vcheck $p quick 2>/dev/null | grep -c "^VIOLATION")
    echo "$id $p violations_reported=$res secs=$(( $(date +%s) - t0 ))" | tee -a $OUT
  done
  git -C /repo checkout -q -- .
}
run /verif/seeded/C01-agent1/patch.diff C01-agent1 C01 C07 C09
run /verif/seeded/C02-a1/patch.diff C02-a1 C02
run /verif/seeded/C03-agent1/patch.diff C03-agent1 C03
run /verif/seeded/C04-a1/patch.diff C04-a1 C04
run /verif/seeded/C05-agent1/patch.diff C05-agent1 C05
run /verif/seeded/C06-a1/patch.diff C06-a1 C06
run /verif/seeded/C07-agent1/patch.diff C07-agent1 C07 C01
run /verif/seeded/C08-a1/patch.diff C08-a1 C09 C08
run /verif/seeded/C09-a1/patch.diff C09-a1 C09
run /verif/seeded/C10-a1/patch.diff C10-a1 C10
run /verif/seeded/C11-a1/patch.diff C11-a1 C11
run /verif/seeded/C12-agent1/patch.diff C12-agent1 C12
run /verif/seeded/C16-a1/patch.diff C16-a1 C16
run /verif/seeded/C17-agent1/patch.diff C17-agent1 C17
run /verif/seeded/C18-a1/patch.diff C18-a1 C18 C13
run /verif/seeded/C19-a1/patch.diff C19-a1 C19 C18
run /verif/seeded/C20-a1/patch.diff C20-a1 C20
run /verif/seeded/C21-a1/patch.diff C21-a1 C21
run /verif/seeded/C22-a1/patch.diff C22-a1 C22
run /verif/seeded/C23-a1/patch.diff C23-a1 C23
run /verif/seeded/C24-a1/patch.diff C24-a1 C24
run /verif/seeded/C25-a1/patch.diff C25-a1 C25
run /verif/seeded/C26-a1/patch.diff C26-a1 C26
for m in /verif/mutants/*.patch; do b=$(basename $m .patch); p=${b%%-*}; run $m own-$b $p; done
echo done | tee -a $OUT
