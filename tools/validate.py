#!/usr/bin/env python3
"""Validate MANIFEST.json and evidence files against the schemas (run with python3-vt, which has jsonschema)."""
import json, sys, glob, os
import jsonschema
root = os.path.dirname(os.path.dirname(os.path.abspath(__file__)))
ok = True
m = json.load(open(os.path.join(root, "MANIFEST.json")))
jsonschema.validate(m, json.load(open("/root/.vp/MANIFEST.schema.json")))
print("MANIFEST ok:", len(m["checks"]), "checks,", len(m.get("not_applicable", [])), "not applicable")
es = json.load(open("/root/.vp/EVIDENCE.schema.json"))
for f in sorted(glob.glob(os.path.join(root, "evidence", "*.json"))):
    try:
        jsonschema.validate(json.load(open(f)), es)
        print("ok", os.path.basename(f))
    except Exception as e:
        ok = False
        print("INVALID", f, str(e)[:300])
sys.exit(0 if ok else 1)
