"""Build configurations and per-property run plans for vcheck."""

CONFIGS = {
    "native": {"args": ["--release"], "bin": "release/svh"},
    "miri": {"miri": True, "args": [], "env": {"MIRIFLAGS": "-Zmiri-disable-isolation"}},
    "asan": {"toolchain": ["+nightly"], "args": ["--release", "--target", "x86_64-unknown-linux-gnu"],
             "env": {"RUSTFLAGS": "-Zsanitizer=address -Cforce-frame-pointers=yes"},
             "bin": "x86_64-unknown-linux-gnu/release/svh"},
    "tsan": {"toolchain": ["+nightly"], "args": ["--release", "-Zbuild-std", "--target", "x86_64-unknown-linux-gnu"],
             "env": {"RUSTFLAGS": "-Zsanitizer=thread", "RUSTUP_TOOLCHAIN": "nightly"},
             "bin": "x86_64-unknown-linux-gnu/release/svh"},
    "native-nda": {"args": ["--profile", "nda"], "bin": "nda/svh"},
    "sched": {"args": ["--release", "--features", "shuttle"], "bin": "release/svh"},
    "persist": {"args": ["--release", "--features", "persist"], "bin": "release/svh"},
}

SETUP_CONFIGS = ["native", "sched", "persist", "asan", "miri"]

ASSUME_SINGLE = [
    "programs are interpreter-shaped (generic tracked fns interpreting generated program data); other user-code shapes are not covered",
    "the reference interpreter is trusted; it is cross-checked against a fresh salsa database on a sample of requests and a disagreement is reported as inconclusive",
    "only the histories generated for this seed were explored; nothing is claimed about others",
]


def single(sub, qcases, tcases, cfg="native", **kw):
    r = {"sub": sub, "cfg": cfg, "quick": {"cases": qcases, "secs": 150}, "thorough": {"cases": tcases, "secs": 900}}
    r.update(kw)
    return r


QUICK_CASES = 60000


def S(rule, q, t, minq, nda=True, cap=None, **kw):
    # thresholds below were calibrated as ~1/3..1/10 of what q cases produce; the quick tier runs fewer cases so that it
    # stays well inside its time budget on a loaded machine, and the thresholds are scaled accordingly
    cap = cap or QUICK_CASES
    scale = min(1.0, cap / q) * 0.5
    minq = {k: max(1, int(v * scale)) for k, v in minq.items()}
    q = min(q, cap)
    runs = [single("single", q, t)]
    if nda:
        runs.append(single("single-nda", 0, max(1, t // 3), cfg="native-nda"))
    d = {"rule": rule, "runs": runs, "min_counts": {"quick": minq}, "assumptions": ASSUME_SINGLE}
    d.update(kw)
    return d


DIST = "; distinct by hash of the printed program+history"
PLANS = {
    "C01": S("case = seeded (program, history) of the acyclic-mixed family (plain/no_eq/lru/multi-argument functions, makers of "
             "tracked structs, interning into reclaimable types, untracked reads) run on one handle with every request compared "
             "to the reference interpreter; non-trivial iff the run saw >=1 DidValidateMemoizedValue, >=1 re-execution after a "
             "write and >=1 re-execution with an equal value (backdate opportunity)" + DIST,
             200000, 6000000, {"ev_validate": 100000, "equal_reexec": 50000, "ev_reuse_interned": 2000, "structs_made": 50000}),
    "C02": S("case = seeded (program, history) with writes of durability keep/LOW/MEDIUM/HIGH/NEVER_CHANGE (raising and lowering), "
             "synthetic writes of every durability, rejected never-change writes; values compared to the reference, panic model for "
             "frozen fields; non-trivial iff >=1 validation, >=1 re-execution after a write and >=1 write with an explicit durability" + DIST,
             200000, 6000000, {"ev_validate": 100000, "reexec_after_write": 50000, "never_change_rejections": 500}),
    "C03": S("case = seeded acyclic (program, history) without specify; every WillExecute is checked against the justification model "
             "(first execution, discarded/re-generated key, eviction, untracked read, or a recorded dependency that changed since the "
             "last validation); non-trivial iff >=1 validation, >=1 justified re-execution and >=1 equal-value re-execution" + DIST,
             200000, 6000000, {"justified": 100000, "ev_validate": 100000, "equal_reexec": 50000}),
    "C04": S("case = seeded (program, history) where functions read harness cells through untracked reads and the cells are poked "
             "between revisions; values vs reference plus the rule 'a function whose last execution read untracked state is executed "
             "again in every later revision in which a from-scratch evaluation of the request calls it'; non-trivial iff >=1 such "
             "re-execution was observed" + DIST,
             200000, 6000000, {"untracked_reexec": 20000, "untracked_equal_reexec": 5000, "untracked_changed_reexec": 2000}, cap=200000),
    "C05": S("case = seeded (program with 6-12 lru functions, history with set_lru_capacity 0..5, trigger_lru_eviction, writes); "
             "values vs reference (transparency) and, after every write/eviction point, the set of lru keys still holding a value "
             "(live-instance registry of the value type) vs an exact LRU model; non-trivial iff >=1 eviction point with an eviction" + DIST,
             200000, 6000000, {"lru_eviction_points": 50000, "lru_evicted": 50000, "lru_evicted_rerequested": 20000, "lru_capacity_changes": 20000}),
    "C06": S("case = seeded (program with makers creating 0-3 tracked structs with identity values from {0,1}, history); identity "
             "model keyed by (creator, identity value, occurrence) vs observed ids, discards, entries() enumeration; non-trivial iff "
             ">=1 identity preserved across a creator re-execution and >=1 DidDiscard" + DIST,
             200000, 6000000, {"identity_preserved": 50000, "struct_deletions": 5000, "entries_checked": 100000, "tracked_slot_reuse": 1000}),
    "C07": S("case = seeded churn (program, history): interned types with revisions=1..3 and constant hash, makers toggling creation, "
             "functions keyed by structs/interned values/argument tuples whose results embed a digest of the key's fields; values vs "
             "reference + identity bookkeeping; non-trivial iff >=1 interned slot reuse or tracked slot reuse" + DIST,
             150000, 4000000, {"ev_reuse_interned": 20000, "tracked_slot_reuse": 5000}),
    "C09": S("case = seeded (program, history) interning into types with revisions in {1,2,3,unbounded} under LOW..HIGH durabilities; "
             "every DidReuseInternedValue is checked against the retention model (type collectable, slot only ever interned under LOW, "
             "not used in any of the last `revisions` use-revisions, enough use-revisions); non-trivial iff >=1 reuse or survival" + DIST,
             150000, 4000000, {"retention_reuses_checked": 20000, "interned_identity_kept": 100000, "interned_revalidations": 20000}),
    "C10": S("case = seeded (program with creators that conditionally specify, pre-read, specify twice or specify foreign structs, "
             "history); q_spec results vs reference, no body execution after a specification, expected panics; non-trivial iff >=1 "
             "specification and >=1 specified value served" + DIST,
             200000, 6000000, {"specified": 100000, "spec_served": 50000, "spec_served_creator_green": 5000, "spec_computed": 20000}, cap=200000),
    "C11": S("case = seeded (program with accumulating functions at several depths, history); accumulated::<Diag>() compared (order and "
             "multiset) with the reference DFS of a from-scratch evaluation; non-trivial iff values were pushed, >=1 memo was "
             "validated and >=1 non-empty accumulated list was returned" + DIST,
             200000, 6000000, {"accum_nonempty": 50000, "ev_validate": 100000}),
    "C12": S("case = seeded cyclic (program over a 2-3 bit set lattice with monotone bodies, cycle_initial=bottom, default or joining "
             "cycle_fn, input-controlled branches, nested cycles, value-controlled monotone branches; history with all entry orders); "
             "every result vs the least fixpoint from two independent solvers; non-trivial iff >=1 request of a cycle member and "
             ">=1 WillIterateCycle" + DIST,
             300000, 8000000, {"cyclic_requests": 500000, "nested_cycle_requests": 100000, "ev_iterate": 50000}, cap=300000),
    "C13": S("case = seeded cyclic (program whose functions all use cycle_result, input-dependent call edges; history); every result vs "
             "the SCC oracle (fallback for members of cyclic SCCs, body value otherwise); non-trivial iff >=1 request of a cycle member" + DIST,
             200000, 6000000, {"cyclic_requests": 500000, "nested_cycle_requests": 50000}, cap=200000),
    "C14": S("case = seeded cyclic (program with cycles through functions without recovery, pure or mixed with fixpoint functions; "
             "history that breaks the cycles again); outcome class per request (cycle panic / least fixpoint / propagated panic), "
             "step bound, later results vs reference; non-trivial iff >=1 cycle panic" + DIST,
             200000, 6000000, {"cycle_panics": 500000}),
    "C15": S("case = seeded cyclic (program with xor/and-not/add inside cycles, 12-bit values so they do not stabilise; history that "
             "switches them to convergent); iteration numbers <= 200, 'too many cycle iterations' panic, step bound, later results vs "
             "reference; non-trivial iff >=1 too-many-iterations panic" + DIST,
             240000, 3000000, {"too_many_panics": 20000, "iterations": 2000000, "cyclic_requests_decided_after_divergence": 8000}, cap=240000),
}
ASSUME_CONC = [
    "programs are interpreter-shaped (generic tracked fns interpreting generated program data)",
    "only the sampled schedules / thread timings were explored; shuttle is sequentially consistent and replaces parking_lot, "
    "the OS-thread engine uses the real lock implementation but cannot enumerate interleavings",
    "the reference interpreter is trusted for expected values",
]


def sched(qcases, tcases, sub="sched", **kw):
    r = {"sub": sub, "cfg": "sched", "quick": {"cases": qcases, "secs": 100}, "thorough": {"cases": tcases, "secs": 900}}
    r.update(kw)
    return r


def osrun(qcases, tcases, sub="os", cfg="native", **kw):
    r = {"sub": sub, "cfg": cfg, "quick": {"cases": qcases, "secs": 100}, "thorough": {"cases": tcases, "secs": 900}}
    r.update(kw)
    return r


def tsan(tcases):
    return {"sub": "os-tsan", "cfg": "tsan", "thorough": {"cases": tcases, "secs": 900},
            "env": {"TSAN_OPTIONS": "halt_on_error=1 exitcode=66 report_signal_unsafe=0"}, "sanitizer": "tsan"}


def C(rule, runs, minq, **kw):
    d = {"rule": rule, "runs": runs, "min_counts": {"quick": minq}, "assumptions": ASSUME_CONC}
    d.update(kw)
    return d


ILV = ("; one evaluation = one executed schedule (shuttle) or one timed run with a failpoint-delay profile (OS threads); "
       "distinct = distinct hash of the sequence of (thread, event kind, key) over scheduling-relevant events")
PLANS["C08"] = C(
    "case = (program interning into constant-hash reclaimable types and a real-hash type, pre-history, 2-4 threads interning values "
    "from a 3-value domain at top level and inside queries); per revision the relation value<->handle must be a bijection and field "
    "reads must return the interned value; non-trivial iff two observations of the same value in one revision were made" + ILV,
    [sched(16000, 400000), osrun(480, 12000), tsan(1500), single("single-hist", 40000, 2000000),
     single("single-hist-nda", 0, 600000, cfg="native-nda")],
    {"intern_same_handle_again": 20000, "schedules": 50000, "interned_identity_kept": 20000, "ev_reuse_interned": 2000,
     "held_handles_read_back": 50000})
PLANS["C08"]["rule"] += ("; run single-hist = one handle, histories of revisions under LOW..HIGH durabilities with slot reclamation "
                         "(the C09 family) checked for the same bijection, identity kept while the slot was not reclaimed, and values vs the reference")
# C09 also runs its retention model over the concurrent interning family (several threads record the first use of a type in a
# fresh revision at once)
PLANS["C09"]["runs"] += [sched(8000, 200000), osrun(240, 6000)]
PLANS["C09"]["rule"] += ("; runs sched/os = the concurrent interning family of C08 (pre-history with several revisions, then 2-4 threads "
                         "interning in a fresh revision) checked by the same retention model over the merged log")
PLANS["C16"] = C(
    "case = (acyclic program with shared sub-queries, pre-history with a write so verification and execution both run, 2-4 threads "
    "with overlapping requests); every thread result vs the reference; deadlock = all threads blocked (shuttle) / protocol-level stuck "
    "state (OS threads); non-trivial iff >=1 thread blocked on another thread's computation" + ILV,
    [sched(16000, 400000), osrun(480, 12000), tsan(1500)],
    {"dg_block_on": 10000, "thread_results": 500000, "schedules": 50000})
PLANS["C17"] = C(
    "same executions as C16 (no lru, no cycles, no cancellation, no panics); WillExecute counted per (key incl. generation, revision) "
    "across all handles must be <= 1; non-trivial iff >=1 thread blocked on another thread's computation" + ILV,
    [sched(16000, 400000), osrun(480, 12000)],
    {"dg_block_on": 10000, "keys_executed": 500000, "schedules": 50000})
PLANS["C18"] = C(
    "case = (cyclic program with fixpoint or cycle_result functions, nested/conditional cycles, 2-3 threads entering at different "
    "members, optionally after a revision change); thread results vs least fixpoint / SCC oracle; deadlock / step bound; non-trivial "
    "iff a lock transfer or a cross-thread wait happened" + ILV,
    [sched(12000, 300000), osrun(480, 12000), tsan(1500)],
    {"dg_transfer": 20000, "dg_block_on": 20000, "schedules": 50000})
PLANS["C19"] = C(
    "case = any of the concurrent workloads (shuttle: acyclic and recovering-cycle readers; OS threads: also cycle panics, writer + "
    "readers, local cancellation); the recorded claim/wait/transfer trace is replayed against the abstract protocol model; non-trivial "
    "iff >=1 BlockOn was recorded" + ILV,
    [sched(16000, 400000), osrun(480, 12000)],
    {"dg_block_on": 20000, "dg_unblock": 20000, "dg_transfer": 5000, "dg_distinct_states": 20000})
PLANS["C20"] = C(
    "case = (acyclic or fixpoint program, one writer thread performing input writes / synthetic writes / lru capacity changes / "
    "eviction triggers through a shared master handle, 1-2 reader threads that take clones, run requests and drop the clone when "
    "done or cancelled); reader results vs reference of the clone's revision, write/drop ordering, cancellation rule, results after "
    "the phase; non-trivial iff a reader was cancelled or a write completed" + ILV,
    [osrun(2560, 32000), tsan(2000)],
    {"cancelled_pending_write": 50, "writes_checked": 5000, "thread_results": 10000})
PLANS["C21"] = C(
    "case = (acyclic or fixpoint program, 2-3 reader threads, a canceller thread firing tokens); Cancelled::Local only with a "
    "preceding unconsumed cancel() of that handle, a cancel between two calls makes the next call unwind, other results vs reference; "
    "non-trivial iff >=1 local cancellation was observed" + ILV,
    [osrun(2560, 32000), tsan(2000)],
    {"cancelled_local": 500, "cancels": 5000})
PLANS["C24"] = C(
    "case = (program with makers, 2-4 threads creating inputs directly, interning, and running makers on their own handles); "
    "identities pairwise distinct per type, read-back equals created values; non-trivial iff structs were created" + ILV,
    [sched(12000, 300000), osrun(480, 12000), tsan(1500)],
    {"created": 100000, "schedules": 50000})
PLANS["C22"] = {
    "level": "fault_enumeration",
    "rule": ("case = seeded small (program, history) from the acyclic families (makers with user Eq on fields, interning with user Hash/Eq "
             "keys, specify, accumulate, durabilities) or fixpoint cycles with cycle_fn; run 0 counts the user-code steps N of the whole "
             "history (body starts, mid-body points, Eq/Clone of values, Hash/Eq of interned keys, cycle functions, the event callback by "
             "event kind); run i in 1..N panics at step i (all N when N <= 120 (quick) / 400 (thorough), else a sample); one evaluation = "
             "one injection point; checked: the panic reaches the caller, the same request and all later steps of the history agree with "
             "the reference (propagated panics allowed for fixpoint functions within the fault's revision), and in the next revision "
             "every node is computable and correct; second run: two OS threads request overlapping functions while a fault is armed "
             "(the waiter gets a propagated panic or a correct value, never hangs); non-trivial iff >=2 distinct injection sites fired"),
    "runs": [
        {"sub": "fault", "cfg": "native", "quick": {"cases": 4000, "secs": 150}, "thorough": {"cases": 120000, "secs": 900}},
        osrun(320, 8000),
    ],
    "min_counts": {"quick": {"faults_fired": 50000, "recovered_next_revision": 50000, "site:Eq": 500, "site:KeyHash": 500,
                             "site:EvDiscard": 100, "site:CycleFn": 50, "waiter_released_with_propagated_panic": 20}},
    "assumptions": ASSUME_SINGLE + ["user-code steps are those of the harness's own functions and value types; a panic inside Drop is not injected"],
}
PLANS["C25"] = {
    "rule": ("case = a block of 512 consecutive sequences of the exhaustive space of edge sequences of length <= 2 over 420 boundary "
             "classes (ingredient in {0,1,0xFFE,0xFFF,0x1000,0x1001,max}, index in {0,1,2^20-1,2^20,max}, generation in "
             "{0,1,0xFFFFE,0xFFFFF,0x100000,u32::MAX}, input/output), each built as derived / untracked x with / without co-allocated "
             "extra data, or 256 sampled sequences of length 3..40 with packable prefixes; each stored origin must decode to the same edges "
             "(forward and reverse), its input and output views must partition them, attaching extra data must not change them, clearing "
             "edges must keep the extra data; persist build: serde_json round trip of persisted origins; Miri: all sequences of length <= 1 "
             "and a sample of longer ones; one evaluation = one origin built and decoded; distinct = distinct sequence"),
    "runs": [
        {"sub": "origin-exh", "cfg": "native", "quick": {"cases": 346, "secs": 300}, "thorough": {"cases": 346, "secs": 900}},
        {"sub": "origin-rand", "cfg": "native", "quick": {"cases": 400, "secs": 100}, "thorough": {"cases": 40000, "secs": 900}},
        {"sub": "origin-serde", "cfg": "persist", "quick": {"cases": 346, "secs": 300}, "thorough": {"cases": 346, "secs": 900}},
        # `cargo miri run` serialises on the target-dir lock, so Miri work is not sharded: quick interprets 4 of the 16 blocks
        # of the length<=1 space (which 4 depends on VERIF_SEED), thorough all of them ten times with different samples
        {"sub": "origin-miri", "cfg": "miri", "max_shards": 1, "quick": {"cases": 4, "secs": 400, "hard_timeout": 1500},
         "thorough": {"cases": 160, "secs": 3000, "hard_timeout": 6000}},
    ],
    "min_counts": {"quick": {"exhaustive_sequences": 176821, "packed_layouts": 20000, "wide_layouts": 500000,
                             "origins_serialized": 500000, "miri_origins": 300}},
    "assumptions": ["the boundary classes are those of the compact encoding's documented limits (12-bit ingredient, 20-bit generation)",
                    "the feature-guarded hook calls the same constructors and accessors as salsa's own code paths"],
    "extra_coverage": {"exhaustive": True},
}
PLANS["C26"] = {
    "rule": ("case = seeded (program over persistable inputs, an interned type with revisions=2, tracked structs, persisted functions and "
             "non-persisted intermediate functions; history); the history runs up to a random cut, the database is serialized with serde_json "
             "and restored into a fresh database of the same type; checked: no panic in serialize/deserialize, every result right after the "
             "restore equals the reference, persisted memos that were verified in the revision of serialization are served without running "
             "their bodies, the rest of the history and a final sweep after a new revision equal the reference; non-trivial iff >=1 restored "
             "memo was served without execution and >=1 write followed the restore" + DIST),
    "runs": [{"sub": "persist", "cfg": "persist", "quick": {"cases": 320000, "secs": 150}, "thorough": {"cases": 6000000, "secs": 900}}],
    "min_counts": {"quick": {"round_trips": 100000, "restored_memos_served_without_execution": 100000, "writes_after_restore": 100000}},
    "assumptions": ASSUME_SINGLE + ["the persistence twin of the harness world uses a restricted expression subset (no specify, no accumulators, no cycles)"],
}
ASAN_ENV = {"ASAN_OPTIONS": "detect_leaks=0:halt_on_error=1:abort_on_error=0:exitcode=134"}
PLANS["C23"] = {
    "rule": ("case = seeded (program, history) of one of the families acyclic-mixed, lru, makers, churn (interned/tracked slot reuse), "
             "specify, fixpoint (some fixpoint functions also lru) and cycle_result, run with reference retention: every `&V` returned by "
             "a tracked function during a revision is remembered with the value it pointed to and re-read just before the next `&mut` step "
             "(write, eviction trigger, capacity change); executed natively (a changed value or a crash is a violation), under "
             "AddressSanitizer, under Miri (tiny volume; undefined behaviour, data races and leaks after the database is dropped are "
             "reported) and, thorough only, under valgrind memcheck and on OS threads under ASan/TSan; non-trivial iff >=1 retained "
             "reference was re-read" + DIST),
    "runs": [
        {"sub": "mem", "cfg": "native", "sanitizer": "native", "quick": {"cases": 48000, "secs": 100}, "thorough": {"cases": 2000000, "secs": 900}},
        {"sub": "mem-asan", "cfg": "asan", "sanitizer": "asan", "env": ASAN_ENV,
         "quick": {"cases": 16000, "secs": 100}, "thorough": {"cases": 800000, "secs": 900}},
        {"sub": "mem-miri", "cfg": "miri", "sanitizer": "miri", "max_shards": 1,
         "quick": {"cases": 3, "secs": 400, "hard_timeout": 1500}, "thorough": {"cases": 80, "secs": 3000, "hard_timeout": 6000}},
        # OS threads (readers, struct churn, cycles, writer+readers, cancellation): natively a death by signal is the observation,
        # under ASan the report
        {"sub": "os", "cfg": "native", "sanitizer": "native", "quick": {"cases": 480, "secs": 60}, "thorough": {"cases": 12000, "secs": 900}},
        {"sub": "os-asan", "cfg": "asan", "sanitizer": "asan", "env": ASAN_ENV,
         "quick": {"cases": 160, "secs": 60}, "thorough": {"cases": 6000, "secs": 900}},
        {"sub": "fault-asan", "cfg": "asan", "sanitizer": "asan", "env": ASAN_ENV, "thorough": {"cases": 20000, "secs": 900}},
        # real threads interpreted by Miri: data races and UB in salsa's unsafe code under 12 interpreter seeds (different
        # preemption points and weak-memory outcomes), 2 failpoint profiles per case
        {"sub": "os-miri", "cfg": "miri", "sanitizer": "miri", "max_shards": 1, "multi_json": True,
         "env": {"MIRIFLAGS": "-Zmiri-disable-isolation -Zmiri-many-seeds=0..12", "SVH_SCHEDULES": "2"},
         "thorough": {"cases": 2, "secs": 3000, "hard_timeout": 6000}},
        {"sub": "mem-memcheck", "cfg": "native", "sanitizer": "memcheck",
         "wrap": ["valgrind", "-q", "--error-exitcode=9", "--errors-for-leak-kinds=none", "--leak-check=no"],
         "thorough": {"cases": 320, "secs": 900}},
    ],
    "min_counts": {"quick": {"retained_refs_checked": 500000, "family:C12": 5000, "family:C05": 3000}},
    "assumptions": ["a clean sanitizer / Miri run is not memory safety: red zones miss non-adjacent accesses, Miri covers tiny histories only",
                    "leak verdicts come from Miri's exact leak check on the cases it runs; LeakSanitizer is off (false positives through packed "
                    "pointers, see DESIGN.md section 12)",
                    "reference retention covers references to function results, not to individual struct fields"],
}
PLANS["C14"]["runs"].append(osrun(480, 12000))
PLANS["C14"]["min_counts"]["quick"]["propagated_cycle_panics"] = 5
PLANS["C14"]["rule"] += ("; second run: the same cyclic programs entered from 2-3 OS threads with failpoint delays (cycle panic on the "
                         "detecting thread, propagated panic on waiters, no stuck state)")
PLANS["C11"]["runs"].append(sched(12000, 300000))
PLANS["C11"]["rule"] += ("; second run: 2-4 threads request accumulated() for roots sharing helpers right after a write, under shuttle "
                         "schedules, each list vs the reference")

for _p in PLANS.values():
    _p["runs"] = [r for r in _p["runs"]]
    for r in _p["runs"]:
        if "quick" in r and r["quick"]["cases"] == 0:
            del r["quick"]
