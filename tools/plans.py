"""Build configurations and per-property run plans for vcheck."""

CONFIGS = {
    "native": {"args": ["--release"], "bin": "release/svh"},
    "native-nda": {"args": ["--profile", "nda"], "bin": "nda/svh"},
    "sched": {"args": ["--release", "--features", "shuttle"], "bin": "release/svh"},
    "persist": {"args": ["--release", "--features", "persist"], "bin": "release/svh"},
}

SETUP_CONFIGS = ["native"]

ASSUME_SINGLE = [
    "programs are interpreter-shaped (generic tracked fns interpreting generated program data); other user-code shapes are not covered",
    "the reference interpreter is trusted; it is cross-checked against a fresh salsa database on a sample of requests and a disagreement is reported as inconclusive",
    "only the histories generated for this seed were explored; nothing is claimed about others",
]


def single(sub, qcases, tcases, cfg="native", **kw):
    r = {"sub": sub, "cfg": cfg, "quick": {"cases": qcases, "secs": 60}, "thorough": {"cases": tcases, "secs": 600}}
    r.update(kw)
    return r


PLANS = {
    "C01": {
        "rule": "case = seeded (program, history) of the acyclic-mixed family run on one handle with every request compared "
                "to the reference interpreter; non-trivial iff the run saw >=1 DidValidateMemoizedValue, >=1 re-execution "
                "after a write and >=1 re-execution with an equal value (backdate opportunity); distinct by hash of "
                "the printed program+history",
        "runs": [single("single", 20000, 600000), single("single-nda", 0, 200000, cfg="native-nda")],
        "min_counts": {"quick": {"ev_validate": 1000, "equal_reexec": 1000}},
        "assumptions": ASSUME_SINGLE,
    },
}
for _p in PLANS.values():
    _p["runs"] = [r for r in _p["runs"]]
    for r in _p["runs"]:
        if r["quick"]["cases"] == 0:
            del r["quick"]
