#!/bin/bash
# confirm_mutant.sh <mutant-dir containing patch.diff and seeded_demo.rs> <scratch-worktree>
# Confirms: (1) patch applies and compiles, (2) demo FAILS with the patch, (3) the existing suite still passes
# with the patch, (4) demo PASSES without the patch. Prints a one-line JSON verdict.
set -u
M=$1; W=$2
cd "$W" || exit 2
git checkout -q -- . ; rm -f tests/seeded_demo.rs
git apply "$M/patch.diff" || { echo "{\"mutant\":\"$M\",\"ok\":false,\"why\":\"patch does not apply\"}"; exit 1; }
cp "$M/seeded_demo.rs" tests/seeded_demo.rs
FEAT=""
if grep -q 'feature = "persistence"' tests/seeded_demo.rs; then FEAT="--features persistence"; fi
if grep -q 'feature = "shuttle"' tests/seeded_demo.rs; then FEAT="--features shuttle"; fi
cargo test --offline -j8 $FEAT --test seeded_demo > /tmp/confirm_demo_with_$$.log 2>&1; WITH=$?
rm -f tests/seeded_demo.rs
cargo test --offline -j8 --workspace --no-fail-fast > /tmp/confirm_suite_$$.log 2>&1; SUITE=$?
PASSED=$(grep -E "^test result" /tmp/confirm_suite_$$.log | awk '{s+=$4} END {print s}')
FAILED=$(grep -E "^test result" /tmp/confirm_suite_$$.log | awk '{s+=$6} END {print s}')
git checkout -q -- .
cp "$M/seeded_demo.rs" tests/seeded_demo.rs
cargo test --offline -j8 $FEAT --test seeded_demo > /tmp/confirm_demo_without_$$.log 2>&1; WITHOUT=$?
rm -f tests/seeded_demo.rs
OK=false
if [ $WITH -ne 0 ] && [ $SUITE -eq 0 ] && [ $WITHOUT -eq 0 ]; then OK=true; fi
echo "{\"mutant\":\"$M\",\"ok\":$OK,\"demo_with_patch_exit\":$WITH,\"suite_exit\":$SUITE,\"suite_passed\":$PASSED,\"suite_failed\":$FAILED,\"demo_without_patch_exit\":$WITHOUT}"
