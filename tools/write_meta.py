#!/usr/bin/env python3
"""write_meta.py: (re)write seeded/<id>/meta.json for the seeded changes listed in INFO from seeded/<id>/confirm.json.
Usage: python3 tools/write_meta.py [<id> ...]   (default: every id in INFO that has a confirm.json)"""
import json, os, sys

ROOT = os.path.dirname(os.path.dirname(os.path.abspath(__file__)))
ORIGIN = "independent sub-agent that saw only the property text and a scratch worktree of /repo"
INFO = {
    "C01-a2": ("C01", "add_untracked_read takes min instead of the new changed_at: an untracked read no longer stamps the query as changed now",
               "a function with an untracked read whose value changes between revisions and a dependent that is deep-verified against it",
               ["C01", "C04"]),
    "C03-a2": ("C03", "deep_verify_edges asks dependencies 'changed since my changed_at' instead of 'since my verified_at'",
               "a backdated memo (re-executed with an equal value) that is validated again in a later revision: it is re-executed without a justification",
               ["C03"]),
    "C05-a2": ("C05", "Lru::set_capacity clears the recency list on every effective capacity change, not only when eviction is switched off",
               "results cached under capacity c1 > 0, a change to another non-zero capacity, then an eviction point: more than `capacity` results survive",
               ["C05"]),
    "C12-a2": ("C12", "a nested cycle head reports convergence from its value alone (metadata convergence ignored)",
               "nested cycle where values are stable one iteration before the flattened dependency sets are; a later write to an input only the outer head reads",
               ["C12"]),
    "C13-a1": ("C13", "the 'value switched, stamp it as changed now' rule for cycle_result functions compares with the old changed_at instead of the old verified_at",
               "old.changed_at < new dependency-derived changed_at <= old.verified_at: a specific multi-write history and entry order",
               ["C13"]),
    "C14-a1": ("C14", "fetch_cold_cycle treats a poisoned fixpoint memo of an earlier revision as belonging to the running execution",
               "a cycle panic through a mixed cycle that poisons a recovering function, then a write that breaks the cycle and a request in the next revision",
               ["C14", "C22"]),
    "C15-a1": ("C15", "fetch_cold_cycle carries the iteration count of any provisional memo with a value over into the new initial memo",
               "nested cycle that hits the iteration limit in one revision and is made convergent in the next: the stale count makes it panic again",
               ["C15"]),
    "C17-a2": ("C17", "maybe_changed_after_cold loads the memo before claiming the query",
               "another thread completes the dependency between the load and the claim: the stale memo is verified, found changed and executed a second time in the revision",
               ["C17"]),
    "C16-a2": ("C16", "interned maybe_changed_after checks the slot generation before taking the shard lock and takes the lock only to pin the value",
               "a stale LOW-durability interned value whose memo is revalidated by one reader while another reader recycles the slot for a new value (generation check, recycling, pin)",
               ["C16", "C08"]),
    "C18-a2": ("C18", "execute_maybe_iterate no longer resets the claim guard's release mode: a re-claimed transferred inner query that completes on its own stays transferred",
               "conditional nested cycle whose inner function drops out of the outer cycle in a later iteration while another thread is blocked on it from inside its own query",
               ["C18"]),
    "C19-a2": ("C19", "transfer_lock computes thread_changed from the thread stored at the previous hand-over instead of assuming true",
               "two hand-overs of one query with a hand-over of its first owner to another thread in between, a change of the cycle structure between iterations, and the new owner thread already waiting for the query",
               []),
    "C20-a2": ("C20", "fetch_cold_cycle's poisoned-memo check loses the verified_at == current revision conjunct (same line as C14-a1)",
               "a reader cancelled by a pending write inside a cycle head's execution; the head is re-queried in the next revision and answers PropagatedPanic",
               ["C20"]),
    "C21-a2": ("C21", "the attach guards call uncancel() only while unwinding",
               "a cancel() that arrives during a computation but is never delivered (after the last tracked call, or deferred inside a fixpoint query), then another request on the same handle",
               ["C21"]),
    "C22-a2": ("C22", "diff_outputs is moved before the backdating PartialEq comparison in execute",
               "a panic in the PartialEq of a function's result during a re-execution that creates fewer tracked structs than before; the retry in the same revision panics on the double delete",
               ["C22"]),
    "C23-a2": ("C23", "delete_entity pushes the id on the free list before clearing the struct's memos",
               "thread A discards a struct with memos while thread B creates a struct of the same type and memoizes a function on it (between the push and the end of clear_memos)",
               ["C23", "C17", "C16"]),
    "C24-a2": ("C24", "record_unfilled_pages iterates instead of draining and into_zalsa_handle lets the storage drop: pages are handed back twice",
               "a handle converted with into_zalsa_handle after it allocated, then two handles allocating concurrently from the page that is listed twice",
               ["C24"]),
    "C02-a2": ("C02", "report_tracked_write stamps only revisions[durability] instead of revisions[1..=durability]",
               "a function of MEDIUM durability that also reads a HIGH field, then a write to the HIGH field and no MEDIUM write before the next fetch",
               ["C02"]),
    "C04-a2": ("C04", "can_backdate also lets a re-executed query with an untracked read be backdated when its durability just dropped",
               "a function that first runs without an untracked read on inputs above LOW, later re-executes with one and an equal value; the untracked cell then changes under a lower-durability synthetic write and a dependent is requested first",
               ["C04"]),
    "C06-a2": ("C06", "new_struct stores the updated id back into the identity map only when the slot index changed",
               "an identity field type whose hash collides for different values and three revisions a -> b -> c of colliding identity values: c receives the id b had",
               ["C06", "C07"]),
    "C07-a2": ("C07", "the generated update_fields chains the identity-field updates with `||` instead of `|`",
               "a tracked struct with two identity fields re-created at the same position with hash-colliding, unequal identity values: the second field keeps the predecessor's value",
               ["C07", "C06"]),
    "C09-a2": ("C09", "RevisionQueue::record_cold drops its lock guard immediately (`let _ =`)",
               "two threads whose first use of a collectable interned type in a fresh revision overlaps: the revision is recorded twice and a value used within the last `revisions` revisions is reclaimed",
               ["C09"]),
    "C10-a2": ("C10", "the 'specified value replaced by a different computed value: changed now' guard compares with the old memo's changed_at instead of verified_at",
               "rev 1 creator specifies and a reader memoizes; rev 2 only an input of the function's own body changes (readers re-verified); rev 3 the creator stops specifying",
               ["C10"]),
    "C11-a2": ("C11", "QueryEdgeIter::next_back of the wide layout calls next(): reverse iteration yields the edges front to back",
               "a function that calls specify (wide edge layout) and at least two accumulating children, read through accumulated()",
               ["C11", "C25"]),
    "C25-a2": ("C25", "same patch as C11-a2 (wide-layout next_back), delivered independently for the round-trip property",
               "any wide-layout origin with two or more edges iterated backwards",
               ["C25", "C11"]),
    "C26-a2": ("C26", "the memo serializer no longer clears visited_edges per memo when flattening dependencies",
               "two memos of one persisted function that reach the same non-persisted helper at depth >= 2; serialize, restore, write to the helper's input, fetch the second memo",
               ["C26"]),
    "C01-a3": ("C01", "tracked_struct::update assigns the new durability before comparing it: fields are not restamped when the creator became less durable",
               "a struct-creating function on a HIGH/MEDIUM input, the input re-written with LOW durability and a value that leaves the tracked field equal, then a LOW write that changes it: a reader keyed by the struct stays stale",
               ["C01"]),
    "C05-a3": ("C05", "record_use moves from fetch into the cold path: hot hits no longer refresh recency or enter the recency list",
               "a result requested again in the revision it was verified in (or shallow-verified by durability) before an eviction point; re-enabling eviction within one revision",
               ["C05"]),
    "C13-a2": ("C13", "a cycle_result head stops iterating after one pass (metadata convergence ignored for fixed values)",
               "a fallback cycle whose closing edge depends on an input read by the entry member before it calls the other; a write then breaks the cycle and the other member keeps a dependency-free memo",
               ["C13"]),
    "C15-a2": ("C15", "verify_memo's durability shortcut marks the memo verified before checking that it is still provisional",
               "converge -> diverge (iteration-limit panic) -> converge, entered through an ordinary function that depends on the head: the stale poison is re-stamped and answers PropagatedPanic",
               ["C15"]),
    "C03-a3": ("C03", "can_backdate refuses to backdate when the old memo was fully tracked and the new execution read untracked state",
               "a function that is tracked in its first execution, is legitimately re-executed after a write and then reports an untracked read for the first time with an equal value: its dependent is re-executed without a justification",
               ["C03"]),
    "C21-a3": ("C21", "CancellationToken::cancel uses compare_exchange(0, CANCELLED) instead of fetch_or: a cancel that arrives while the DISABLED bit is set is lost",
               "cancel() arriving exactly while the target handle executes inside a function with cycle recovery configured, followed by another tracked-function request outside it",
               ["C21"]),
    "C22-a3": ("C22", "the unwind guard of tracked_struct::update releases the write lock by stamping the struct as updated in the current revision instead of restoring the previous stamp",
               "a panic in a tracked field's PartialEq while the creator re-creates the struct with different fields, then a retry in the same revision: the field update is skipped",
               ["C22"]),
    "C24-a3": ("C24", "Storage::clone forks the parent's ZalsaLocal including its page hints: parent and clones allocate from the same page",
               "a handle that already allocated a struct of an ingredient is cloned; parent and clone create structs of that ingredient concurrently",
               ["C24"]),
    "C16-a3": ("C16", "take_non_full_page peeks instead of popping (same mechanism as C24-a1, delivered independently for C16)",
               "a dropped handle that left a partly filled page; two later handles allocating that ingredient with overlapping fill-level loads: two structs share an id and one reader returns the other's data",
               ["C16", "C24"]),
    "C17-a3": ("C17", "LazyMemoEntries::initialize publishes its array with a plain store instead of compare_exchange",
               "two threads finishing the first execution of two different functions keyed by the same new struct; the memo stored in the overwritten array is lost and the function runs again in the same revision",
               ["C17"]),
    "C20-a3": ("C20", "cancel_others bumps the cancellation count only if another handle still exists when it takes the clones lock",
               "a reader cancelled mid-fixpoint by a revision-preserving write drops its handle between the flag being set and the clones lock; the cycle is re-queried in that revision and answers PropagatedPanic",
               ["C20"]),
}


def main():
    ids = sys.argv[1:] or sorted(INFO)
    for mid in ids:
        d = os.path.join(ROOT, "seeded", mid)
        cj = os.path.join(d, "confirm.json")
        if mid not in INFO or not os.path.exists(cj) or os.path.getsize(cj) == 0:
            print("skip", mid)
            continue
        prop, change, needs, detected = INFO[mid]
        res = json.load(open(cj))
        meta = {
            "property": prop,
            "change": change,
            "needs_to_manifest": needs,
            "origin": ORIGIN,
            "confirmed": {
                "script": "tools/confirm_mutant.sh (demo fails with the patch, passes without; full suite passes with the patch)",
                "result": res,
            },
            "checked_with": [f"git -C /repo apply seeded/{mid}/patch.diff; ./vcheck {p} quick; git -C /repo checkout -- ." for p in detected],
            "detected_by": detected,
        }
        if not detected:
            meta["not_detected"] = "not caught by the quick tier; see DESIGN.md 14.4"
        json.dump(meta, open(os.path.join(d, "meta.json"), "w"), indent=1)
        print("wrote", mid, "ok" if res.get("ok") else "NOT CONFIRMED")


main()
