#!/usr/bin/env python3
"""write_meta.py: (re)write seeded/<id>/meta.json for the seeded changes listed in INFO from seeded/<id>/confirm.json.
Usage: python3 tools/write_meta.py [<id> ...]   (default: every id in INFO that has a confirm.json)"""
import json, os, sys

ROOT = os.path.dirname(os.path.dirname(os.path.abspath(__file__)))
ORIGIN = "independent sub-agent that saw only the property text and a scratch worktree of /repo"
INFO = {
    "C01-a2": ("C01", "add_untracked_read takes min instead of the new changed_at: an untracked read no longer stamps the query as changed now",
               "a function with an untracked read whose value changes between revisions and a dependent that is deep-verified against it",
               ["C01", "C04"]),
    "C03-a2": ("C03", "deep_verify_edges asks dependencies 'changed since my changed_at' instead of 'since my verified_at'",
               "a backdated memo (re-executed with an equal value) that is validated again in a later revision: it is re-executed without a justification",
               ["C03"]),
    "C05-a2": ("C05", "Lru::set_capacity clears the recency list on every effective capacity change, not only when eviction is switched off",
               "results cached under capacity c1 > 0, a change to another non-zero capacity, then an eviction point: more than `capacity` results survive",
               ["C05"]),
    "C12-a2": ("C12", "a nested cycle head reports convergence from its value alone (metadata convergence ignored)",
               "nested cycle where values are stable one iteration before the flattened dependency sets are; a later write to an input only the outer head reads",
               ["C12"]),
    "C13-a1": ("C13", "the 'value switched, stamp it as changed now' rule for cycle_result functions compares with the old changed_at instead of the old verified_at",
               "old.changed_at < new dependency-derived changed_at <= old.verified_at: a specific multi-write history and entry order",
               ["C13"]),
    "C14-a1": ("C14", "fetch_cold_cycle treats a poisoned fixpoint memo of an earlier revision as belonging to the running execution",
               "a cycle panic through a mixed cycle that poisons a recovering function, then a write that breaks the cycle and a request in the next revision",
               ["C14", "C22"]),
    "C15-a1": ("C15", "fetch_cold_cycle carries the iteration count of any provisional memo with a value over into the new initial memo",
               "nested cycle that hits the iteration limit in one revision and is made convergent in the next: the stale count makes it panic again",
               ["C15"]),
    "C17-a2": ("C17", "maybe_changed_after_cold loads the memo before claiming the query",
               "another thread completes the dependency between the load and the claim: the stale memo is verified, found changed and executed a second time in the revision",
               ["C17"]),
    "C16-a2": ("C16", "interned maybe_changed_after checks the slot generation before taking the shard lock and takes the lock only to pin the value",
               "a stale LOW-durability interned value whose memo is revalidated by one reader while another reader recycles the slot for a new value (generation check, recycling, pin)",
               ["C16", "C08"]),
    "C18-a2": ("C18", "execute_maybe_iterate no longer resets the claim guard's release mode: a re-claimed transferred inner query that completes on its own stays transferred",
               "conditional nested cycle whose inner function drops out of the outer cycle in a later iteration while another thread is blocked on it from inside its own query",
               ["C18"]),
    "C19-a2": ("C19", "transfer_lock computes thread_changed from the thread stored at the previous hand-over instead of assuming true",
               "two hand-overs of one query with a hand-over of its first owner to another thread in between, a change of the cycle structure between iterations, and the new owner thread already waiting for the query",
               []),
    "C20-a2": ("C20", "fetch_cold_cycle's poisoned-memo check loses the verified_at == current revision conjunct (same line as C14-a1)",
               "a reader cancelled by a pending write inside a cycle head's execution; the head is re-queried in the next revision and answers PropagatedPanic",
               ["C20"]),
    "C21-a2": ("C21", "the attach guards call uncancel() only while unwinding",
               "a cancel() that arrives during a computation but is never delivered (after the last tracked call, or deferred inside a fixpoint query), then another request on the same handle",
               ["C21"]),
    "C22-a2": ("C22", "diff_outputs is moved before the backdating PartialEq comparison in execute",
               "a panic in the PartialEq of a function's result during a re-execution that creates fewer tracked structs than before; the retry in the same revision panics on the double delete",
               ["C22"]),
    "C23-a2": ("C23", "delete_entity pushes the id on the free list before clearing the struct's memos",
               "thread A discards a struct with memos while thread B creates a struct of the same type and memoizes a function on it (between the push and the end of clear_memos)",
               ["C23", "C17", "C16"]),
    "C24-a2": ("C24", "record_unfilled_pages iterates instead of draining and into_zalsa_handle lets the storage drop: pages are handed back twice",
               "a handle converted with into_zalsa_handle after it allocated, then two handles allocating concurrently from the page that is listed twice",
               ["C24"]),
}


def main():
    ids = sys.argv[1:] or sorted(INFO)
    for mid in ids:
        d = os.path.join(ROOT, "seeded", mid)
        cj = os.path.join(d, "confirm.json")
        if mid not in INFO or not os.path.exists(cj) or os.path.getsize(cj) == 0:
            print("skip", mid)
            continue
        prop, change, needs, detected = INFO[mid]
        res = json.load(open(cj))
        meta = {
            "property": prop,
            "change": change,
            "needs_to_manifest": needs,
            "origin": ORIGIN,
            "confirmed": {
                "script": "tools/confirm_mutant.sh (demo fails with the patch, passes without; full suite passes with the patch)",
                "result": res,
            },
            "checked_with": [f"git -C /repo apply seeded/{mid}/patch.diff; ./vcheck {p} quick; git -C /repo checkout -- ." for p in detected],
            "detected_by": detected,
        }
        if not detected:
            meta["not_detected"] = "not caught by the quick tier; see DESIGN.md 14.4"
        json.dump(meta, open(os.path.join(d, "meta.json"), "w"), indent=1)
        print("wrote", mid, "ok" if res.get("ok") else "NOT CONFIRMED")


main()
